"""
Library models for pyvc: builtins and the numpy subset of DESIGN.md 3.3.

Every model is an *assumed contract on a dependency*; `AXIOMS` lists them and
each use is recorded in the evidence through Interp.used_models.
"""
from __future__ import annotations

import builtins
import copy as _copy
import math

import ast
import numpy as np
import z3

from .core import OutsideSubset
from .pyvc import (Sym, SList, SGList, SDict, SObj, SArr, SBuf, DType, IRaise, IFunc, IBound,
                   Summary, MISSING, is_sym, is_scalar, num_expr, bool_expr, int_expr,
                   simp_int, compare, arith, fresh, ite, _same, _b, _simp_bool,
                   SQRT, EXP, LOG, SIN, COS, ERF, J0, GAMMALN, ARCSIN, ARCTAN, PI)

AXIOMS = {}


def LibMethod(fn, name=None):
    return Summary(fn, name, contract=False)


def axiom(name, text):
    AXIOMS[name] = text


def used(interp, name):
    interp.__dict__.setdefault("used_models", set()).add(name)


# --------------------------------------------------------------------------
# helpers
# --------------------------------------------------------------------------

def as_len(interp, v):
    from . import pymat
    if isinstance(v, pymat.SMat):
        R = v.shape2[0]
        return R if isinstance(R, int) else Sym(R)
    if isinstance(v, SArr):
        return v.length()
    if isinstance(v, SList):
        return len(v.items)
    if isinstance(v, SDict):
        ps = [p for p, _ in v.entries.values() if p is not False]
        if all(p is True for p in ps):
            return len(ps)
        return Sym(z3.Sum([z3.If(_b(p), 1, 0) for p in ps]))
    if isinstance(v, SObj):
        m = interp.getattr(v, "__len__", None)
        if m is None:
            raise IRaise(TypeError("object has no len()"))
        return interp.call(m, [])
    try:
        return len(v)
    except TypeError as exc:
        raise IRaise(exc)


def zlen(v):
    """z3 Int term (or int) of a length value."""
    return v.e if isinstance(v, Sym) else v


def seq_view(interp, v):
    """(length, at(j)->z3 term, kind) of any 1-D sequence value."""
    if isinstance(v, SArr):
        return zlen(v.length()), v.at, v.kind
    if isinstance(v, (SList, list, tuple)):
        items = v.items if isinstance(v, SList) else list(v)
        if not all(is_scalar(x) for x in items):
            # nested sequences: flatten one level (np.hstack semantics)
            raise OutsideSubset("sequence of non-scalars")
        es = [num_expr(x) for x in items]
        kind = "real" if any(z3.is_real(x) for x in es) or not es else "int"
        if kind == "real":
            es = [z3.ToReal(x) if z3.is_int(x) else x for x in es]

        def at(j, es=es, kind=kind):
            j = z3.IntVal(j) if isinstance(j, int) else j
            sj = simp_int(j)
            if sj is not None and 0 <= sj < len(es):
                return es[sj]
            r = z3.RealVal(0) if kind == "real" else z3.IntVal(0)
            for k in reversed(range(len(es))):
                r = z3.If(j == k, es[k], r)
            return r
        return len(es), at, kind
    if isinstance(v, np.ndarray) and v.ndim == 1:
        return seq_view(interp, list(v))
    if is_scalar(v):
        e = num_expr(v)
        return 1, (lambda j, e=e: e), ("real" if z3.is_real(e) else "int")
    raise OutsideSubset("not a sequence: %r" % (v,))


def to_real(e):
    return z3.ToReal(e) if z3.is_int(e) else e


def concat(interp, parts, name="hstack"):
    """np.hstack / concatenate of 1-D sequences (axiom: element k of the result
    is element k - sum(len of earlier parts) of the part containing it)."""
    used(interp, "hstack")
    views = [seq_view(interp, p) for p in parts]
    kind = "real" if any(k == "real" for _, _, k in views) or not views else "int"
    offs = []
    total = 0
    for n, _, _ in views:
        offs.append(total)
        total = total + n
    if not isinstance(total, int):
        total = z3.simplify(total)

    def at(j, views=views, offs=offs, kind=kind):
        j = z3.IntVal(j) if isinstance(j, int) else j
        r = z3.RealVal(0) if kind == "real" else z3.IntVal(0)
        for (n, get, k), off in reversed(list(zip(views, offs))):
            v = get(z3.simplify(j - off))
            if kind == "real":
                v = to_real(v)
            r = z3.If(j < off + n, v, r) if True else r
        return r
    return interp.array_from_fn(at, total, kind, name)


axiom("hstack", "np.hstack/concatenate of 1-D sequences lays the parts out consecutively")


def arr_copy(interp, a, kind=None, name="copy"):
    """Value copy of an array (astype / np.array / .copy()): new buffer."""
    n, get, k = seq_view(interp, a)
    kind = kind or k
    if kind == "real" and k == "int":
        g = lambda j, get=get: to_real(get(j))
    elif kind == "int" and k == "real":
        g = lambda j, get=get: z3.ToInt(get(j))
    else:
        g = get
    # freeze: capture the current content closure of the source buffer
    r = interp.array_from_fn(g, n, kind, name)
    if getattr(a, "nan_flag", None) is not None:
        r.nan_flag = a.nan_flag          # validity flag travels with the values
    return r


def freeze(a):
    """Closure reading the *current* contents of array a (not later writes)."""
    if isinstance(a, SArr):
        get = a.buf.get
        off = a.off
        st = a.stride
        return lambda j, get=get, off=off, st=st: get(z3.simplify(
            (z3.IntVal(off) if isinstance(off, int) else off) + (j * st if st != 1 else j)))
    raise OutsideSubset("freeze")


def seq_view_frozen(interp, v):
    if isinstance(v, SArr):
        return zlen(v.length()), freeze(v), v.kind
    return seq_view(interp, v)


def lift2(sym):
    def f(x, y):
        x, y = (to_real(x), to_real(y)) if (z3.is_real(x) or z3.is_real(y)) else (x, y)
        r = arith(sym, Sym(x), Sym(y))
        return num_expr(r)
    return f


def array_binop(interp, sym, a, b, inplace=False):
    used(interp, "elementwise")
    if sym is None:
        raise OutsideSubset("array operator")
    na, ga, ka = seq_view_frozen(interp, a) if not is_scalar(a) else (None, None, None)
    nb, gb, kb = seq_view_frozen(interp, b) if not is_scalar(b) else (None, None, None)
    if na is not None and nb is not None:
        if not _same(na, nb):
            one_a, one_b = _same(na, 1), _same(nb, 1)
            if one_a:
                ga0 = ga(z3.IntVal(0)); ga = lambda j, v=ga0: v; na = nb
            elif one_b:
                gb0 = gb(z3.IntVal(0)); gb = lambda j, v=gb0: v
            else:
                interp.side_obligation("array shapes match", (na if not isinstance(na, int) else z3.IntVal(na)) == nb)
        n = na
    elif na is not None:
        eb = num_expr(b)
        gb = lambda j, eb=eb: eb
        n = na
    else:
        ea = num_expr(a)
        ga = lambda j, ea=ea: ea
        n = nb
    op = lift2(sym)
    get = lambda j: op(ga(j), gb(j))
    probe = get(z3.Int("probe!"))
    kind = "real" if z3.is_real(probe) else "int"
    if inplace and isinstance(a, SArr):
        if a.kind == "int" and kind == "real":
            raise IRaise(TypeError("cannot cast ufunc output from float to int in place"))
        off = z3.IntVal(a.off) if isinstance(a.off, int) else a.off
        lo, hi = off, off + (z3.IntVal(n) if isinstance(n, int) else n)
        a.buf.store_range(lo, hi, lambda j, off=off: get(z3.simplify(j - off)))
        return a
    return interp.array_from_fn(get, n, kind, "binop" + sym)


axiom("elementwise", "numpy arithmetic and comparisons on arrays act element by element; "
                     "scalars and length-1 arrays broadcast")


def array_compare(interp, sym, a, b):
    used(interp, "elementwise")
    na, ga, _ = seq_view_frozen(interp, a) if not is_scalar(a) else (None, None, None)
    nb, gb, _ = seq_view_frozen(interp, b) if not is_scalar(b) else (None, None, None)
    if na is None:
        ea = num_expr(a); ga = lambda j: ea; n = nb
    elif nb is None:
        eb = num_expr(b); gb = lambda j: eb; n = na
    else:
        n = na

    def get(j):
        return bool_expr(compare(sym, Sym(ga(j)), Sym(gb(j))))
    return interp.array_from_fn(get, n, "bool", "cmp")


def arr_map(interp, a, fn, kind=None, name="map"):
    n, get, k = seq_view_frozen(interp, a)
    return interp.array_from_fn(lambda j: fn(get(j)), n, kind or k, name)


# --------------------------------------------------------------------------
# item access
# --------------------------------------------------------------------------

def norm_index(interp, i, n, what="index"):
    """Normalise a Python index against length n with a bounds side-obligation."""
    if isinstance(i, int) and isinstance(n, int):
        if not -n <= i < n:
            raise IRaise(IndexError("%s %d out of range %d" % (what, i, n)))
        return i + n if i < 0 else i
    ie = int_expr(i)
    ne = z3.IntVal(n) if isinstance(n, int) else n
    if isinstance(i, int) and i < 0:
        interp.side_obligation("index in bounds", ne + i >= 0)
        return z3.simplify(ne + i)
    interp.side_obligation("index in bounds", z3.And(ie >= 0, ie < ne))
    return ie


def norm_slice(interp, sl, n):
    """(start, stop) of slice against length n; negative concrete bounds are
    taken from the end; symbolic bounds carry in-bounds side obligations
    (numpy/Python clamp silently, the contract requires no clamping)."""
    if sl.step is not None and not (isinstance(sl.step, int) and sl.step >= 1):
        raise OutsideSubset("slice step")
    ne = z3.IntVal(n) if isinstance(n, int) else n

    def one(v, default):
        if v is None:
            return default
        if isinstance(v, int) or (type(v).__module__ == "numpy"):
            v = int(v)
            if isinstance(n, int):
                if v < 0:
                    v = max(n + v, 0)
                return min(v, n)
            if v < 0:
                interp.side_obligation("slice bound in range", ne + v >= 0)
                return z3.simplify(ne + v)
            interp.side_obligation("slice bound in range", ne >= v)
            return v
        e = int_expr(v)
        interp.side_obligation("slice bound in range", z3.And(e >= 0, e <= ne))
        return e
    lo = one(sl.start, 0)
    hi = one(sl.stop, n)
    if isinstance(lo, int) and isinstance(hi, int):
        if hi < lo:
            hi = lo
        return lo, hi
    loe = z3.IntVal(lo) if isinstance(lo, int) else lo
    hie = z3.IntVal(hi) if isinstance(hi, int) else hi
    # Python/numpy semantics: an inverted slice is empty
    if not interp.implied(loe <= hie):
        hi = z3.If(hie < loe, loe, hie)
    return lo, hi


def getitem(interp, obj, key):
    from . import pymat
    if isinstance(obj, pymat.SMat):
        return pymat.getitem(interp, obj, key)
    if isinstance(obj, SArr) and isinstance(key, tuple):
        return pymat.arr_getitem_tuple(interp, obj, key)
    if isinstance(obj, SArr):
        n = zlen(obj.length())
        if isinstance(key, slice) and key.step == -1 and key.start is None and key.stop is None:
            # x[::-1]: the reversed sequence (read-only uses: modelled as a reversed copy, not a view)
            src = freeze(obj)
            ne = z3.IntVal(n) if isinstance(n, int) else n
            return interp.array_from_fn(lambda j: src(z3.simplify(ne - 1 - j)), n, obj.kind, "reversed")
        if isinstance(key, slice):
            lo, hi = norm_slice(interp, key, n)
            st = key.step or 1
            ln = hi - lo
            if st != 1:
                ln = (ln + (st - 1)) // st if isinstance(ln, int) else (ln + (st - 1)) / st
            if not isinstance(ln, int):
                ln = z3.simplify(ln)
                s = simp_int(ln)
                ln = s if s is not None else ln
            off = obj.off + lo * obj.stride
            if not isinstance(off, int):
                off = z3.simplify(off)
                s = simp_int(off)
                off = s if s is not None else off
            return SArr(obj.buf, off, ln, obj.dtype_name, obj.stride * st)      # a view
        if isinstance(key, SArr):
            if key.kind == "bool":
                return mask_select(interp, obj, key)
            # fancy indexing: copy
            used(interp, "fancy-index")
            kn, kget, _ = seq_view_frozen(interp, key)
            src = freeze(obj)
            ne = z3.IntVal(n) if isinstance(n, int) else n
            j = z3.Int("idx!j")
            interp.side_obligation(
                "index in bounds",
                z3.ForAll([j], z3.Implies(z3.And(j >= 0, j < kn),
                                          z3.And(kget(j) >= 0, kget(j) < ne))))
            return interp.array_from_fn(lambda j: src(kget(j)), kn, obj.kind, "take")
        if isinstance(key, tuple):
            raise OutsideSubset("multi-dimensional index")
        i = norm_index(interp, key, n)
        return Sym(obj.at(i))
    if isinstance(obj, SList):
        if isinstance(key, slice):
            if any(is_sym(x) for x in (key.start, key.stop, key.step)):
                raise OutsideSubset("symbolic slice of a list")
            return interp.new_list(obj.items[key])
        if is_sym(key):
            # symbolic index into a concrete list of scalars
            n = len(obj.items)
            ie = int_expr(key)
            interp.side_obligation("index in bounds", z3.And(ie >= -n, ie < n))
            r = None
            for k in reversed(range(n)):
                r = obj.items[k] if r is None else ite(z3.Or(ie == k, ie == k - n), obj.items[k], r)
            return r
        try:
            return obj.items[key]
        except (IndexError, TypeError) as exc:
            raise IRaise(exc)
    if isinstance(obj, SDict):
        if is_sym(key):
            raise OutsideSubset("symbolic dict key")
        ent = obj.entries.get(key)
        if ent is None or ent[0] is False:
            raise IRaise(KeyError(key))
        if ent[0] is not True:
            if not interp.decide(ent[0]):
                raise IRaise(KeyError(key))
        return ent[1]
    if isinstance(obj, SObj):
        m = interp.getattr(obj, "__getitem__", None)
        if m is None:
            raise IRaise(TypeError("not subscriptable"))
        return interp.call(m, [key])
    if isinstance(obj, (tuple, list, str, range)):
        if isinstance(key, slice):
            if any(is_sym(x) for x in (key.start, key.stop, key.step)):
                if isinstance(obj, (tuple, list)) and all(is_scalar(x) for x in obj):
                    # symbolic slice of a tuple of scalars (e.g. ZEROS[:extra])
                    arr = concat(interp, [list(obj)], "tuple")
                    r = getitem(interp, arr, key)
                    r.from_tuple = True       # still a tuple for '+' (tuple concatenation), see pyvc.binop
                    return r
                raise OutsideSubset("symbolic slice of a tuple")
            return obj[key]
        if is_sym(key):
            lst = interp.new_list(list(obj))
            return getitem(interp, lst, key)
        try:
            return obj[key]
        except (IndexError, TypeError) as exc:
            raise IRaise(exc)
    if is_sym(key):
        raise OutsideSubset("symbolic key on %r" % (type(obj).__name__,))
    try:
        return obj[key]
    except (KeyError, IndexError, TypeError) as exc:
        raise IRaise(exc)


def setitem(interp, obj, key, v):
    from . import pymat
    if isinstance(obj, pymat.SMat):
        return pymat.setitem(interp, obj, key, v)
    if isinstance(obj, SArr):
        n = zlen(obj.length())
        off = z3.IntVal(obj.off) if isinstance(obj.off, int) else obj.off
        if isinstance(key, slice):
            lo, hi = norm_slice(interp, key, n)
            loe = z3.IntVal(lo) if isinstance(lo, int) else lo
            hie = z3.IntVal(hi) if isinstance(hi, int) else hi
            if is_scalar(v):
                e = num_expr(v)
                if obj.kind == "real":
                    e = to_real(e)
                fn = lambda j, e=e: e
            else:
                vn, vget, vk = seq_view_frozen(interp, v)
                interp.side_obligation("assigned slice length matches",
                                       (z3.IntVal(vn) if isinstance(vn, int) else vn) == hie - loe)
                base = z3.simplify(off + loe)
                if obj.kind == "real":
                    fn = lambda j, base=base: to_real(vget(z3.simplify(j - base)))
                elif vk == "real":
                    fn = lambda j, base=base: z3.ToInt(vget(z3.simplify(j - base)))
                else:
                    fn = lambda j, base=base: vget(z3.simplify(j - base))
            obj.buf.store_range(z3.simplify(off + loe), z3.simplify(off + hie), fn)
            return
        if isinstance(key, SArr) and key.kind == "int":
            kn, kget, _ = seq_view_frozen(interp, key)
            if not isinstance(kn, int):
                raise OutsideSubset("array store with an index array of symbolic length")
            if is_scalar(v):
                vget = lambda j, e=num_expr(v): e
            else:
                vn, vget, _ = seq_view_frozen(interp, v)
            ne = z3.IntVal(n) if isinstance(n, int) else n
            for j in range(kn):
                idx = kget(z3.IntVal(j))
                interp.side_obligation("index in bounds", z3.And(idx >= 0, idx < ne))
                e = vget(z3.IntVal(j))
                obj.buf.store(z3.simplify(off + idx), to_real(e) if obj.kind == "real" else e)
            return
        if isinstance(key, SArr) and key.kind == "bool" and is_scalar(v):
            # a[mask] = scalar
            used(interp, "elementwise")
            kn, kget, _ = seq_view_frozen(interp, key)
            interp.side_obligation("boolean mask length matches", (z3.IntVal(kn) if isinstance(kn, int) else kn)
                                   == (z3.IntVal(n) if isinstance(n, int) else n))
            e = num_expr(v)
            if obj.kind == "real":
                e = to_real(e)
            old = freeze(obj)
            if obj.stride != 1:
                raise OutsideSubset("masked store into a strided view")
            ne = z3.IntVal(n) if isinstance(n, int) else n
            obj.buf.store_range(off, z3.simplify(off + ne),
                                lambda j, off=off, e=e, old=old: z3.If(kget(z3.simplify(j - off)), e,
                                                                       old(z3.simplify(j - off))))
            return
        if isinstance(key, (SArr, tuple)):
            raise OutsideSubset("array store with array/tuple index")
        i = norm_index(interp, key, n)
        ie = z3.IntVal(i) if isinstance(i, int) else i
        e = num_expr(v)
        if obj.kind == "real":
            e = to_real(e)
        elif z3.is_real(e):
            e = z3.ToInt(e)
        obj.buf.store(z3.simplify(off + ie), e)
        return
    if isinstance(obj, SList):
        if is_sym(key):
            raise OutsideSubset("symbolic index store into a list")
        try:
            obj.items[key] = v if not isinstance(key, slice) else interp.iterate(v)
        except IndexError as exc:
            raise IRaise(exc)
        return
    if isinstance(obj, SDict):
        if is_sym(key):
            raise OutsideSubset("symbolic dict key")
        try:
            hash(key)
        except TypeError as exc:
            raise IRaise(exc)
        obj.entries[key] = (True, v)
        return
    if isinstance(obj, SObj):
        m = interp.getattr(obj, "__setitem__", None)
        if m is None:
            raise IRaise(TypeError("does not support item assignment"))
        return interp.call(m, [key, v])
    raise OutsideSubset("item store on live object %r (would mutate shared state)"
                        % (type(obj).__name__,))


def mask_select(interp, arr, mask):
    """x[mask] (axiom): an order-preserving subsequence of exactly the elements
    whose mask is true.  The result has a fresh symbolic length m and an index
    map sel: [0,m) -> [0,n), strictly increasing, mask(sel(k)) true, onto the
    true positions.  The quantified facts go to interp.axioms (used by the
    proofs, not by branch decisions)."""
    used(interp, "mask-select")
    n, get, kind = seq_view_frozen(interp, arr)
    mn, mget, _ = seq_view_frozen(interp, mask)
    c = interp.__dict__.setdefault("_nsel", [0])
    c[0] += 1
    tag = "sel%d" % c[0]
    m = z3.Int("len!" + tag)
    sel = z3.Function(tag, z3.IntSort(), z3.IntSort())
    inv = z3.Function("inv!" + tag, z3.IntSort(), z3.IntSort())
    k, i = z3.Int("k!" + tag), z3.Int("i!" + tag)
    ne = z3.IntVal(n) if isinstance(n, int) else n
    interp.assume(z3.And(m >= 0, m <= ne))
    ax = interp.__dict__.setdefault("axioms", [])
    ax.append(z3.ForAll([k], z3.Implies(z3.And(k >= 0, k < m),
                                        z3.And(sel(k) >= 0, sel(k) < ne, mget(sel(k)))),
                        patterns=[sel(k)]))
    ax.append(z3.ForAll([k], z3.Implies(z3.And(k >= 0, k + 1 < m), sel(k) < sel(k + 1)),
                        patterns=[sel(k + 1)]))
    ax.append(z3.ForAll([i], z3.Implies(z3.And(i >= 0, i < ne, mget(i)),
                                        z3.And(inv(i) >= 0, inv(i) < m, sel(inv(i)) == i)),
                        patterns=[inv(i)]))
    # the same facts as schemas for explicit (quantifier-free) instantiation

    def schema(t, t2=None, sel=sel, inv=inv, m=m, ne=ne, mget=mget):
        out = [z3.Implies(z3.And(t >= 0, t < m), z3.And(sel(t) >= 0, sel(t) < ne, mget(sel(t)))),
               z3.Implies(z3.And(t >= 0, t + 1 < m), sel(t) < sel(t + 1))]
        if t2 is not None:
            out.append(z3.Implies(z3.And(t >= 0, t < t2, t2 < m), sel(t) < sel(t2)))
        return out
    schema.sel = sel
    schema.inv = inv
    schema.m = m
    schema.n = ne
    schema.mask = mget
    interp.__dict__.setdefault("axiom_schemas", []).append(schema)
    r = interp.array_from_fn(lambda j: get(sel(j)), m, kind, "masked")
    r.sel = (sel, inv, m, arr, mask)
    if isinstance(arr, SArr):
        r.dtype_name = arr.dtype_name
    return r


axiom("mask-select", "x[mask] is the order-preserving subsequence of exactly the elements with mask true")


def np_linspace(interp, args, kw):
    """np.linspace(a, b, n)[k] = a + k (b - a)/(n - 1) for n >= 2, [a] for n == 1 (axiom)."""
    used(interp, "linspace")
    a, b = args[0], args[1]
    n = args[2] if len(args) > 2 else kw.get("num", 50)
    ae, be = to_real(num_expr(a)), to_real(num_expr(b))
    if isinstance(n, int):
        ne = z3.IntVal(n)
    else:
        ne = int_expr(n)
    interp.side_obligation("linspace point count non-negative", ne >= 0)

    c_ = interp.__dict__.setdefault("_nlin", [0])
    c_[0] += 1
    Lin = z3.Function("linspace%d" % c_[0], z3.IntSort(), z3.RealSort())

    def formula(j):
        j = z3.IntVal(j) if isinstance(j, int) else j
        return z3.If(ne == 1, ae, ae + z3.ToReal(j) * (be - ae) / z3.ToReal(ne - 1))

    def at(j):
        j = z3.IntVal(j) if isinstance(j, int) else j
        return Lin(j)

    def mono(i, i2):
        """instance of lemma linspace_mono: i < i2, a < b, n >= 2  =>  x_i < x_i2"""
        return z3.Implies(z3.And(i < i2, ae < be, ne >= 2), Lin(i) < Lin(i2))

    def defn(j):
        """definitional instance: x_j = a + j (b-a)/(n-1)"""
        return Lin(j) == formula(j)
    mono.bounds = (ae, be, ne)
    mono.defn = defn
    mono.fn = Lin
    interp.__dict__.setdefault("linspace_schemas", []).append(mono)
    # end points are used by almost every proof: instantiate them eagerly
    if isinstance(n, int) and n <= 64:
        for j in range(n):
            interp.assume(defn(z3.IntVal(j)))
    return interp.array_from_fn(at, n if isinstance(n, int) else ne, "real", "linspace")


axiom("linspace", "np.linspace(a,b,n)[k] = a + k(b-a)/(n-1) (n>=2)")


def np_ones_like(interp, args, kw):
    a = args[0]
    n, _, _ = seq_view(interp, a)
    return interp.array_from_fn(lambda j: z3.RealVal(1), n, "real", "ones_like")


def array_bitop(interp, sym, a, b):
    """& and | on boolean arrays."""
    na, ga, ka = seq_view_frozen(interp, a)
    nb, gb, kb = seq_view_frozen(interp, b)
    if ka != "bool" or kb != "bool":
        raise OutsideSubset("bit operator on non-boolean arrays")
    if not _same(na, nb):
        interp.side_obligation("array shapes match", (z3.IntVal(na) if isinstance(na, int) else na) == nb)
    f = z3.And if sym == "&" else z3.Or
    return interp.array_from_fn(lambda j: f(ga(j), gb(j)), na, "bool", "bitop")


# --------------------------------------------------------------------------
# methods of modelled values
# --------------------------------------------------------------------------

def method(interp, obj, name, default=MISSING):
    from . import pymat
    if isinstance(obj, pymat.SMat):
        return pymat.mat_attr(interp, obj, name, default)
    if isinstance(obj, SArr):
        return arr_attr(interp, obj, name, default)
    if isinstance(obj, SList):
        return list_attr(interp, obj, name)
    if isinstance(obj, SDict):
        return dict_attr(interp, obj, name)
    if isinstance(obj, Sym):
        if name == "astype":
            return LibMethod(lambda it, a, k: obj)
        if name in ("real",):
            return obj
        if name == "dtype":
            return DType("f8" if obj.is_real else "i4")
    if default is not MISSING:
        return default
    raise IRaise(AttributeError(name))


def arr_attr(interp, a, name, default):
    if name == "dtype":
        return DType(a.dtype_name)
    if name == "size":
        return a.length()
    if name == "shape":
        return (a.length(),)
    if name == "ndim":
        return 1
    if name in ("any", "all") and a.kind == "bool":
        return LibMethod(lambda it, args, kw: np_all_any(name)(it, [a], kw), name)
    if name == "astype":
        def astype(it, args, kw):
            dt = args[0] if args else kw.get("dtype")
            kind = kind_of_dtype(dt, a.kind)
            r = arr_copy(it, a, kind, "astype")
            r.dtype_name = dtype_name(dt, a.dtype_name)
            return r
        return LibMethod(astype, "astype")
    if name == "copy":
        return LibMethod(lambda it, args, kw: arr_copy(it, a, None, "copy"), "copy")
    if name == "flatten" or name == "ravel":
        return LibMethod(lambda it, args, kw: arr_copy(it, a, None, "flatten"), name)
    if name == "tolist":
        return LibMethod(lambda it, args, kw: it.new_list(it.iterate(a)), name)
    if name == "sum":
        return LibMethod(lambda it, args, kw: np_sum(it, [a], kw), "sum")
    if name == "fill":
        def fill(it, args, kw):
            setitem(it, a, slice(None, None, None), args[0])
        return LibMethod(fill, "fill")
    if name == "T":
        return a
    if name == "reshape":
        from . import pymat
        return LibMethod(lambda it, args, kw: pymat.arr_reshape(it, a, args[0] if len(args) == 1 else tuple(args)),
                         "reshape")
    if name == "ctypes":
        return interp.new_obj(None, {"data": ("ctypes-pointer", a)}, "ctypes")
    if default is not MISSING:
        return default
    raise OutsideSubset("array attribute %s" % name)


def kind_of_dtype(dt, default):
    if dt is None:
        return default
    if isinstance(dt, DType):
        return "int" if dt.name.startswith("i") else "real"
    if dt in (int, np.int32, np.int64, "i4", "i8", "int32", "int64"):
        return "int"
    if dt in (bool, np.bool_):
        return "bool"
    try:
        k = np.dtype(dt).kind
        return {"i": "int", "u": "int", "b": "bool"}.get(k, "real")
    except Exception:
        return default


def dtype_name(dt, default):
    if dt is None:
        return default
    if isinstance(dt, DType):
        return dt.name
    try:
        d = np.dtype(dt)
        return "%s%d" % (d.kind, d.itemsize)
    except Exception:
        return default


def list_attr(interp, lst, name):
    def append(it, args, kw):
        lst.items.append(args[0])

    def extend(it, args, kw):
        lst.items.extend(it.iterate(args[0]))

    def pop(it, args, kw):
        try:
            return lst.items.pop(*args)
        except IndexError as exc:
            raise IRaise(exc)

    def index(it, args, kw):
        for i, x in enumerate(lst.items):
            if is_sym(x) or is_sym(args[0]):
                raise OutsideSubset("list.index on symbolic items")
            if x == args[0]:
                return i
        raise IRaise(ValueError("not in list"))

    def insert(it, args, kw):
        lst.items.insert(args[0], args[1])

    def copy(it, args, kw):
        return it.new_list(lst.items)
    def set_update(it, args, kw):
        # a set of concrete hashable items is a heap list without duplicates
        for x in it.iterate(args[0]):
            if is_sym(x):
                raise OutsideSubset("symbolic item in a set")
            if not any((not is_sym(y)) and y == x for y in lst.items):
                lst.items.append(x)

    def set_add(it, args, kw):
        set_update(it, [[args[0]]], kw)
    table = {"append": append, "extend": extend, "pop": pop, "index": index,
             "insert": insert, "copy": copy}
    if getattr(lst, "is_set", False):
        table = {"update": set_update, "add": set_add, "copy": copy}
    if name in table:
        return LibMethod(table[name], "list." + name)
    raise OutsideSubset("list attribute %s" % name)


def dict_attr(interp, d, name):
    def get(it, args, kw):
        key = args[0]
        dflt = args[1] if len(args) > 1 else None
        ent = d.entries.get(key)
        if ent is None or ent[0] is False:
            return dflt
        if ent[0] is True:
            return ent[1]
        try:
            return it._merge_value(ent[0], ent[1], dflt, None)
        except Exception:
            if it.decide(ent[0]):
                return ent[1]
            return dflt

    def pop(it, args, kw):
        key = args[0]
        ent = d.entries.get(key)
        has_default = len(args) > 1
        if ent is None or ent[0] is False:
            if has_default:
                return args[1]
            raise IRaise(KeyError(key))
        if ent[0] is True:
            del d.entries[key]
            return ent[1]
        if has_default:
            try:
                v = it._merge_value(ent[0], ent[1], args[1], None)
                del d.entries[key]
                return v
            except Exception:
                pass
        if it.decide(ent[0]):
            del d.entries[key]
            return ent[1]
        d.entries.pop(key, None)
        if has_default:
            return args[1]
        raise IRaise(KeyError(key))

    def items(it, args, kw):
        return DictView(d, "items")

    def keys(it, args, kw):
        return DictView(d, "keys")

    def values(it, args, kw):
        return DictView(d, "values")

    def copy(it, args, kw):
        return it.new_dict(d.entries, d.ordered)

    def update(it, args, kw):
        for a in args:
            it.dict_update(d, a)
        for k, v in kw.items():
            d.entries[k] = (True, v)

    def setdefault(it, args, kw):
        key, dflt = args[0], (args[1] if len(args) > 1 else None)
        ent = d.entries.get(key)
        if ent is None or ent[0] is False:
            d.entries[key] = (True, dflt)
            return dflt
        if ent[0] is True:
            return ent[1]
        v = it._merge_value(ent[0], ent[1], dflt, None)
        d.entries[key] = (True, v)
        return v
    table = {"get": get, "pop": pop, "items": items, "keys": keys, "values": values,
             "copy": copy, "update": update, "setdefault": setdefault}
    if name in table:
        return LibMethod(table[name], "dict." + name)
    raise OutsideSubset("dict attribute %s" % name)


class DictView(object):
    def __init__(self, d, what):
        self.d = d
        self.what = what


# --------------------------------------------------------------------------
# numpy / builtin function models
# --------------------------------------------------------------------------

def np_sum(interp, args, kw):
    from . import pymat
    a = args[0]
    if isinstance(a, pymat.SMat):
        axis = kw.get("axis", args[1] if len(args) > 1 else None)
        return pymat.np_sum_axis(interp, a, axis)
    if isinstance(a, SArr):
        n = a.length()
        if isinstance(n, int):
            if n == 0:
                return 0.0 if a.kind == "real" else 0
            tot = None
            for i in range(n):
                x = a.at(i)
                if a.kind == "bool":
                    x = z3.If(x, 1, 0)
                tot = x if tot is None else tot + x
            return Sym(z3.simplify(tot))
        used(interp, "sum")
        return Sym(SigmaArr(interp, a))
    if isinstance(a, (SList, list, tuple)):
        items = a.items if isinstance(a, SList) else list(a)
        tot = 0
        for x in items:
            tot = x + tot if is_sym(x) or is_sym(tot) else tot + x
        return tot
    if is_scalar(a):
        return a
    raise OutsideSubset("np.sum of %r" % (a,))


_sigma_cache = {}


def SigmaArr(interp, a):
    """Uninterpreted Sigma over a symbolic-length array with its defining
    recursion available as lemma instances (sum_split etc. in contracts)."""
    key = id(a.buf)
    f = z3.Function("Sigma!%d" % (len(_sigma_cache)), z3.IntSort(), z3.IntSort(),
                    z3.RealSort() if a.kind == "real" else z3.IntSort())
    _sigma_cache[key] = (f, a)
    interp.ghost.setdefault("sigmas", []).append((f, a))
    # contents at the time of the sum (the array may be overwritten in place afterwards)
    interp.ghost.setdefault("sigma_terms", []).append((f, freeze(a) if isinstance(a, SArr) else None, a))
    off = z3.IntVal(a.off) if isinstance(a.off, int) else a.off
    n = z3.IntVal(a.n) if isinstance(a.n, int) else a.n
    return f(off, off + n)


axiom("sum", "np.sum/sum of a symbolic-length array is an uninterpreted Sigma(lo,hi) "
             "with the lemmas named in the contract")


def builtin_len(interp, args, kw):
    return as_len(interp, args[0])


def builtin_sum(interp, args, kw):
    a = args[0]
    start = args[1] if len(args) > 1 else 0
    if isinstance(a, SArr):
        return np_sum(interp, [a], {}) + start if start != 0 else np_sum(interp, [a], {})
    tot = start
    for x in interp.iterate(a):
        if isinstance(x, SArr) or isinstance(tot, SArr):
            tot = array_binop(interp, "+", tot, x)
        else:
            tot = tot + x
    return tot


def builtin_getattr(interp, args, kw):
    if len(args) == 3:
        return interp.getattr(args[0], args[1], args[2])
    return interp.getattr(args[0], args[1])


def builtin_setattr(interp, args, kw):
    interp.setattr(args[0], args[1], args[2])


def builtin_hasattr(interp, args, kw):
    sentinel = object()
    return interp.getattr(args[0], args[1], sentinel) is not sentinel


def builtin_isinstance(interp, args, kw):
    obj, cls = args
    classes = cls if isinstance(cls, tuple) else (cls,)
    for c in classes:
        if isinstance(obj, SObj):
            if obj.cls is not None and isinstance(c, type) and issubclass(obj.cls, c):
                return True
            continue
        if isinstance(obj, SList):
            if c in (list,) or getattr(c, "__name__", "") in ("Sequence", "Iterable", "list"):
                return True
            continue
        if isinstance(obj, SDict):
            if c in (dict,) or getattr(c, "__name__", "") in ("Mapping", "OrderedDict", "dict"):
                return True
            continue
        if isinstance(obj, SArr):
            if c is np.ndarray:
                return True
            continue
        if isinstance(obj, Sym):
            if obj.is_real and c in (float, np.floating):
                return True
            if obj.is_int and c in (int, np.integer):
                return True
            if obj.is_bool and c in (bool, int):
                return True
            continue
        if isinstance(obj, c):
            return True
    return False


def guarded_items(view):
    return [(p, {"items": (k, v), "keys": k, "values": v}[view.what])
            for k, (p, v) in view.d.entries.items() if p is not False]


def builtin_list(interp, args, kw):
    if not args:
        return interp.new_list()
    a = args[0]
    if isinstance(a, SDict):
        a = DictView(a, "keys")
    if isinstance(a, DictView):
        items = guarded_items(a)
        if all(p is True for p, _ in items):
            return interp.new_list([x for _, x in items])
        return SGList(items)       # snapshot with symbolic presence
    if isinstance(a, SGList):
        return a
    return interp.new_list(interp.iterate(a))


def builtin_sorted(interp, args, kw):
    a = args[0]
    if isinstance(a, (SDict, DictView, SGList)):
        a = builtin_list(interp, [a], {})
        if isinstance(a, SGList):
            # order of a guarded snapshot does not matter to the contracts
            return a
    items = interp.iterate(a)
    if any(is_sym(x) for x in items):
        raise OutsideSubset("sorted() of symbolic values")
    key = kw.get("key")
    if key is not None:
        ks = [interp.call(key, [x]) for x in items]
        order = sorted(range(len(items)), key=lambda i: ks[i], reverse=bool(kw.get("reverse")))
        return interp.new_list([items[i] for i in order])
    return interp.new_list(sorted(items, reverse=bool(kw.get("reverse"))))


def builtin_tuple(interp, args, kw):
    if not args:
        return ()
    if isinstance(args[0], DictView):
        return tuple(dictview_items(interp, args[0]))
    return tuple(interp.iterate(args[0]))


def dictview_items(interp, view):
    out = []
    for k, (p, v) in list(view.d.entries.items()):
        if p is False:
            continue
        if p is not True and not interp.decide(p):
            continue
        out.append({"items": (k, v), "keys": k, "values": v}[view.what])
    return out


def builtin_dict(interp, args, kw):
    d = interp.new_dict()
    for a in args:
        if isinstance(a, SGList):
            for p, kv in a.items:
                k, v = kv
                if is_sym(k):
                    raise OutsideSubset("symbolic dict key")
                if p is True:
                    d.entries[k] = (True, v)
                    continue
                old = d.entries.get(k, (False, None))
                if old[0] is False:
                    d.entries[k] = (p, v)
                else:
                    d.entries[k] = (_simp_bool(z3.Or(_b(old[0]), p)),
                                    interp._merge_value(p, v, old[1], None))
            continue
        if isinstance(a, DictView):
            a = builtin_list(interp, [a], {})
            return builtin_dict(interp, [a], kw)
        interp.dict_update(d, a)
    for k, v in kw.items():
        d.entries[k] = (True, v)
    return d


def builtin_ordered_dict(interp, args, kw):
    d = builtin_dict(interp, args, kw)
    d.ordered = True
    return d


def builtin_enumerate(interp, args, kw):
    start = args[1] if len(args) > 1 else kw.get("start", 0)
    return [(i + start, x) for i, x in enumerate(interp.iterate(args[0]))]


def builtin_zip(interp, args, kw):
    return list(zip(*[interp.iterate(a) for a in args]))


def builtin_range(interp, args, kw):
    if any(is_sym(a) for a in args):
        raise OutsideSubset("range with symbolic bounds needs a loop invariant")
    return range(*args)


def builtin_abs(interp, args, kw):
    a = args[0]
    if isinstance(a, SArr):
        return arr_map(interp, a, lambda x: z3.If(x >= 0, x, -x))
    return abs(a)


def builtin_minmax(which):
    def f(interp, args, kw):
        items = interp.iterate(args[0]) if len(args) == 1 else list(args)
        if not any(is_sym(x) for x in items):
            return (min if which == "min" else max)(items)
        r = items[0]
        for x in items[1:]:
            c = bool_expr(compare("<" if which == "min" else ">", x, r))
            r = ite(c, x, r)
        return r
    return f


def builtin_float(interp, args, kw):
    a = args[0] if args else 0.0
    if isinstance(a, Sym):
        return Sym(to_real(num_expr(a)))
    if isinstance(a, SArr):
        n = a.length()
        if isinstance(n, int) and n == 1:
            return Sym(to_real(a.at(0)))
        raise IRaise(TypeError("only length-1 arrays can be converted"))
    try:
        return float(a)
    except (TypeError, ValueError) as exc:
        raise IRaise(exc)


def builtin_int(interp, args, kw):
    a = args[0] if args else 0
    if isinstance(a, Sym):
        if a.is_int:
            return a
        e = a.e
        # truncation toward zero
        return Sym(z3.If(e >= 0, z3.ToInt(e), -z3.ToInt(-e)))
    try:
        return int(a, *args[1:]) if len(args) > 1 else int(a)
    except (TypeError, ValueError) as exc:
        raise IRaise(exc)


def builtin_bool(interp, args, kw):
    t = interp.truth(args[0]) if args else False
    return t if isinstance(t, bool) else Sym(t)


def builtin_all_any(which):
    def f(interp, args, kw):
        a = args[0]
        if isinstance(a, SArr):
            return np_all_any(which)(interp, args, kw)
        ts = [interp.truth(x) for x in interp.iterate(a)]
        if all(isinstance(t, bool) for t in ts):
            return all(ts) if which == "all" else any(ts)
        es = [_b(t) for t in ts]
        return Sym(z3.And(*es) if which == "all" else z3.Or(*es))
    return f


def np_all_any(which):
    def f(interp, args, kw):
        a = args[0]
        if is_scalar(a):
            t = interp.truth(a)
            return t if isinstance(t, bool) else Sym(t)
        n, get, kind = seq_view_frozen(interp, a)
        if isinstance(n, int):
            es = []
            for i in range(n):
                x = get(z3.IntVal(i))
                es.append(x if z3.is_bool(x) else x != 0)
            if not es:
                return which == "all"
            return Sym(z3.simplify(z3.And(*es) if which == "all" else z3.Or(*es)))
        used(interp, "all/any")
        j = z3.Int("aa!j")
        x = get(j)
        body = x if z3.is_bool(x) else x != 0
        rng = z3.And(j >= 0, j < n)
        if which == "all":
            return Sym(z3.ForAll([j], z3.Implies(rng, body)))
        return Sym(z3.Exists([j], z3.And(rng, body)))
    return f


axiom("all/any", "np.all/np.any over an array of symbolic length is the bounded quantifier")


def np_array(interp, args, kw):
    a = args[0]
    dt = args[1] if len(args) > 1 else kw.get("dtype")
    if isinstance(a, SArr):
        r = arr_copy(interp, a, kind_of_dtype(dt, a.kind), "array")
        r.dtype_name = dtype_name(dt, a.dtype_name)
        return r
    if is_scalar(a):
        return a   # 0-d array behaves as the scalar in the code under contract
    if isinstance(a, (SList, list, tuple)):
        items = a.items if isinstance(a, SList) else list(a)
        if all(is_scalar(x) for x in items):
            r = concat(interp, [items], "array")
            if dt is not None:
                r = arr_copy(interp, r, kind_of_dtype(dt, r.kind), "array")
                r.dtype_name = dtype_name(dt, r.dtype_name)
            return r
    if isinstance(a, np.ndarray) and not kw and len(args) == 1:
        return np.array(a)
    raise OutsideSubset("np.array of %r" % (a,))


def np_asarray(interp, args, kw):
    a = args[0]
    if isinstance(a, SArr) and len(args) == 1 and not kw:
        return a
    return np_array(interp, args, kw)


def np_hstack(interp, args, kw):
    parts = interp.iterate(args[0])
    return concat(interp, parts)


def np_insert(interp, args, kw):
    """np.insert(arr, k, v) for a concrete position k and a scalar v: a copy
    [arr[:k], v, arr[k:]] (axiom)."""
    used(interp, "insert")
    a, k, v = args[:3]
    if not isinstance(k, int) or not is_scalar(v):
        raise OutsideSubset("np.insert with symbolic position")
    n, get, kind = seq_view_frozen(interp, a)
    e = num_expr(v)
    if kind == "real":
        e = to_real(e)
    interp.side_obligation("insert position in range", (z3.IntVal(n) if isinstance(n, int) else n) >= k)

    def at(j):
        j = z3.IntVal(j) if isinstance(j, int) else j
        return z3.If(j < k, get(j), z3.If(j == k, e, get(j - 1)))
    r = interp.array_from_fn(at, z3.simplify(n + 1) if not isinstance(n, int) else n + 1, kind, "insert")
    r.dtype_name = a.dtype_name if isinstance(a, SArr) else r.dtype_name
    return r


axiom("insert", "np.insert(a, k, v) returns a copy with v placed before index k")


def np_prod(interp, args, kw):
    a = args[0]
    n, get, kind = seq_view_frozen(interp, a)
    if not isinstance(n, int):
        raise OutsideSubset("np.prod over an array of symbolic length")
    r = Sym(z3.RealVal(1) if kind == "real" else z3.IntVal(1))
    for j in range(n):
        r = arith("*", r, Sym(get(z3.IntVal(j))))
    return r if n else (1.0 if kind == "real" else 1)


class NanCheck(object):
    """Result of np.isnan(x) for an array x that carries a validity flag."""

    def __init__(self, flag):
        self.flag = flag


def np_isnan(interp, args, kw):
    a = args[0]
    flag = getattr(a, "nan_flag", None)
    if flag is not None:
        return NanCheck(flag)
    if isinstance(a, SArr) and callable(getattr(a, "nan_el", None)):
        # a harness array with a per-element "is NaN" predicate (data that may hold NaN)
        ne = a.nan_el
        return interp.array_from_fn(lambda j: ne(j), a.n, "bool", "isnan")
    if isinstance(a, SArr) or is_sym(a):
        # reals have no NaN
        if isinstance(a, SArr):
            return interp.array_from_fn(lambda j: z3.BoolVal(False), a.n, "bool", "isnan")
        return False
    return np.isnan(a)


def np_zeros_like(val):
    def f(interp, args, kw):
        n = args[0]
        dt = args[1] if len(args) > 1 else kw.get("dtype")
        kind = kind_of_dtype(dt, "real")
        if isinstance(n, (tuple, SList)):
            from . import pymat
            shp = tuple(n.items) if isinstance(n, SList) else n
            if len(shp) == 2 and val is not None:
                return pymat.np_zeros2(interp, shp, val, kind)
            raise OutsideSubset("multi-dimensional allocation")
        ne = zlen(n)
        if val is None:
            used(interp, "empty")
            r = interp.new_array("empty!%d" % len(interp.heap.objs), ne, kind)
        else:
            c = z3.RealVal(val) if kind == "real" else z3.IntVal(val)
            r = interp.array_from_fn(lambda j: c, ne, kind, "const")
        r.dtype_name = dtype_name(dt, "f8")
        return r
    return f


axiom("empty", "np.empty returns an array of arbitrary (unconstrained) contents")


def unary_real(fn_z3, concrete, domain=None):
    """domain(x) -> z3 Bool: where the real function is defined (outside it numpy yields NaN)."""
    def f(interp, args, kw):
        from . import pymat
        a = args[0]
        if isinstance(a, pymat.SMat):
            r = pymat.mat_map(interp, a, lambda x: fn_z3(to_real(x)), "real")
            if domain is not None:
                sel = a.frozen_el()
                r.nan_el = lambda rr, cc, sel=sel: z3.Not(domain(to_real(sel(rr, cc))))
            out = kw.get("out")
            if out is not None:
                nan = getattr(r, "nan_el", None)
                pymat._overwrite(interp, out, r)
                if nan is not None:
                    out.nan_el = nan
                return out
            return r
        if isinstance(a, SArr):
            return arr_map(interp, a, lambda x: fn_z3(to_real(x)), "real")
        if is_sym(a):
            return Sym(fn_z3(to_real(num_expr(a))))
        try:
            return concrete(a)
        except Exception as exc:
            raise IRaise(exc)
    return f


def z3_abs(x):
    return z3.If(x >= 0, x, -x)


def z3_radians(x):
    return x * PI / 180


def np_diff(interp, args, kw):
    a = args[0]
    n, get, k = seq_view_frozen(interp, a)
    used(interp, "elementwise")
    return interp.array_from_fn(lambda j: get(j + 1) - get(j), (n - 1) if isinstance(n, int) else z3.simplify(n - 1),
                                k, "diff")


def np_clip(interp, args, kw):
    """np.clip(a, lo, hi[, out=]) = minimum(maximum(a, lo), hi)."""
    a = args[0]
    lo = args[1] if len(args) > 1 else kw.get("a_min")
    hi = args[2] if len(args) > 2 else kw.get("a_max")
    out = args[3] if len(args) > 3 else kw.get("out")
    r = a
    if lo is not None:
        r = np_maxmin2("max")(interp, [r, lo], {})
    if hi is not None:
        r = np_maxmin2("min")(interp, [r, hi], {})
    if out is not None:
        from . import pymat
        if isinstance(out, pymat.SMat):
            pymat._overwrite(interp, out, r)
            return out
        raise OutsideSubset("np.clip(out=) into a 1-D array")
    return r


def np_maxmin2(which):
    """np.maximum / np.minimum (elementwise, broadcasting a scalar)."""
    def f(interp, args, kw):
        from . import pymat
        a, b = args[0], args[1]
        pick = (lambda x, y: z3.If(x >= y, x, y)) if which == "max" else (lambda x, y: z3.If(x <= y, x, y))
        if isinstance(a, pymat.SMat) or isinstance(b, pymat.SMat):
            Ra, Ca, ea = pymat.shape_of(interp, a)
            Rb, Cb, eb = pymat.shape_of(interp, b)
            R_, C_ = pymat._bdim(interp, Ra, Rb), pymat._bdim(interp, Ca, Cb)

            def fn(r, c_):
                x, y = _coerce2(ea(pymat._idx(Ra, r), pymat._idx(Ca, c_)), eb(pymat._idx(Rb, r), pymat._idx(Cb, c_)))
                return pick(x, y)
            res = pymat.build(interp, R_, C_, fn, "real", prefer=(a.conc_axis if isinstance(a, pymat.SMat) else b.conc_axis))
            out = kw.get("out")
            if out is not None:
                pymat._overwrite(interp, out, res)
                return out
            return res
        if is_scalar(a) and is_scalar(b):
            if not is_sym(a) and not is_sym(b):
                return max(a, b) if which == "max" else min(a, b)
            x, y = _coerce2(num_expr(a), num_expr(b))
            return Sym(pick(x, y))
        na, ga, ka = seq_view_frozen(interp, a) if not is_scalar(a) else (None, None, None)
        nb, gb, kb = seq_view_frozen(interp, b) if not is_scalar(b) else (None, None, None)
        if na is None:
            ea = num_expr(a); ga = lambda j: ea; n = nb
        elif nb is None:
            eb = num_expr(b); gb = lambda j: eb; n = na
        else:
            n = na

        def get(j):
            x, y = _coerce2(ga(j), gb(j))
            return pick(x, y)
        probe = get(z3.Int("probe!"))
        return interp.array_from_fn(get, n, "real" if z3.is_real(probe) else "int", which + "imum")
    return f


def _coerce2(x, y):
    if z3.is_real(x) and z3.is_int(y):
        y = z3.ToReal(y)
    elif z3.is_int(x) and z3.is_real(y):
        x = z3.ToReal(x)
    return x, y


def np_extreme(which):
    """np.min / np.max of a 1-D array: for a symbolic length an uninterpreted value with its two
    defining facts (bound for every index via a quantifier, attained at a Skolem index)."""
    def f(interp, args, kw):
        a = args[0]
        if is_scalar(a):
            return a
        n, get, k = seq_view_frozen(interp, a)
        if isinstance(n, int):
            if n == 0:
                raise IRaise(ValueError("zero-size array to reduction operation"))
            r = get(z3.IntVal(0))
            for i in range(1, n):
                x = get(z3.IntVal(i))
                r = z3.If(x < r, x, r) if which == "min" else z3.If(x > r, x, r)
            return Sym(z3.simplify(r))
        used(interp, "extreme")
        cnt = len(interp.ghost.setdefault("extremes", []))
        sort = z3.RealSort() if k == "real" else z3.IntSort()
        v = z3.Const("%s!%d" % (which, cnt), sort)
        at = z3.Int("arg%s!%d" % (which, cnt))
        j = z3.Int("j!ext")
        interp.side_obligation("np.%s of a non-empty array" % which, n > 0)
        bound = (v <= get(j)) if which == "min" else (v >= get(j))
        interp.assume(z3.And(at >= 0, at < n, get(at) == v))
        interp.assume(z3.ForAll([j], z3.Implies(z3.And(j >= 0, j < n), bound)))
        interp.ghost["extremes"].append((which, v, at, get, n))
        return Sym(v)
    return f


axiom("extreme", "np.min/np.max of a non-empty array is an element of the array that bounds every element")


def np_argextreme(which):
    """np.argmin / np.argmax: an index at which the minimum / maximum is attained."""
    def f(interp, args, kw):
        a = args[0]
        n, get, k = seq_view_frozen(interp, a)
        if isinstance(n, int) and n == 1:
            return 0
        used(interp, "extreme")
        cnt = len(interp.ghost.setdefault("extremes", []))
        at = z3.Int("arg%s!%d" % (which, cnt))
        j = z3.Int("j!ext")
        ne = z3.IntVal(n) if isinstance(n, int) else n
        interp.side_obligation("np.arg%s of a non-empty array" % which, ne > 0)
        bound = (get(at) <= get(j)) if which == "min" else (get(at) >= get(j))
        interp.assume(z3.And(at >= 0, at < ne))
        interp.assume(z3.ForAll([j], z3.Implies(z3.And(j >= 0, j < ne), bound)))
        interp.ghost["extremes"].append((which, get(at), at, get, n))
        return Sym(at)
    return f


def np_arange(interp, args, kw):
    """np.arange(a, b, step) with symbolic bounds and step > 0: the points a + j*step < b (axiom)."""
    if len(args) == 1:
        a, b, step = 0, args[0], 1
    elif len(args) == 2:
        a, b, step = args[0], args[1], 1
    else:
        a, b, step = args[:3]
    if not any(is_sym(x) for x in (a, b, step)):
        return np_asarray(interp, [interp.new_list(list(np.arange(a, b, step)))], {})
    used(interp, "arange")
    ae, be, se = num_expr(a), num_expr(b), num_expr(step)
    integral = z3.is_int(ae) and z3.is_int(be) and z3.is_int(se)
    if not integral:
        ae, be, se = to_real(ae), to_real(be), to_real(se)
    cnt = interp.__dict__.setdefault("_narange", [0])
    cnt[0] += 1
    m = z3.Int("len!arange%d" % cnt[0])
    interp.side_obligation("arange step positive", se > 0)
    conv = (lambda t: t) if integral else z3.ToReal
    interp.assume(z3.And(m >= 0, z3.Implies(m > 0, ae + conv(m - 1) * se < be), ae + conv(m) * se >= be))
    return interp.array_from_fn(lambda j: ae + conv(j) * se, m, "int" if integral else "real", "arange")


axiom("arange", "np.arange(a, b, step)[j] = a + j*step for the j with a + j*step < b (step > 0)")


def np_ceil(interp, args, kw):
    """np.ceil / math.ceil of a symbolic real: the integer c with x <= c < x + 1."""
    a = args[0]
    if not is_sym(a):
        import math as _m
        return float(_m.ceil(a))
    e = to_real(num_expr(a))
    cnt = interp.__dict__.setdefault("_nceil", [0])
    cnt[0] += 1
    k = z3.Int("ceil!%d" % cnt[0])
    interp.assume(z3.And(e <= z3.ToReal(k), z3.ToReal(k) < e + 1))
    return Sym(z3.ToReal(k))


def np_where3(interp, args, kw):
    """np.where(cond, a, b) elementwise (1-D)."""
    if len(args) != 3:
        raise OutsideSubset("np.where with one argument")
    cnd, a, b = args
    used(interp, "elementwise")
    n, cget, _ = seq_view_frozen(interp, cnd)
    ga = (lambda j, e=num_expr(a): e) if is_scalar(a) else seq_view_frozen(interp, a)[1]
    gb = (lambda j, e=num_expr(b): e) if is_scalar(b) else seq_view_frozen(interp, b)[1]

    def get(j):
        x, y = _coerce2(ga(j), gb(j))
        return z3.If(cget(j), x, y)
    probe = get(z3.Int("probe!"))
    return interp.array_from_fn(get, n, "real" if z3.is_real(probe) else "int", "where")


def np_argsort(interp, args, kw):
    """np.argsort of a concrete-length array: SOME permutation that orders the keys (ties in any order,
    as numpy's default sort is not stable)."""
    a = args[0]
    n, get, k = seq_view_frozen(interp, a)
    if not isinstance(n, int):
        raise OutsideSubset("argsort of a symbolic-length array")
    used(interp, "argsort")
    cnt = interp.__dict__.setdefault("_nargsort", [0])
    cnt[0] += 1
    idx = [z3.Int("argsort!%d!%d" % (cnt[0], i)) for i in range(n)]
    facts = [z3.And(x >= 0, x < n) for x in idx]
    if n > 1:
        facts.append(z3.Distinct(*idx))
    for i in range(n - 1):
        facts.append(get(idx[i]) <= get(idx[i + 1]))
    if facts:
        interp.assume(z3.And(*facts))
    return arr_copy(interp, interp.new_list([Sym(x) for x in idx]), kind="int")


axiom("argsort", "np.argsort returns a permutation of the indices that puts the keys in non-decreasing order (order of ties unspecified)")


def np_cumop(which):
    def f(interp, args, kw):
        a = args[0]
        n, get, k = seq_view_frozen(interp, a)
        if not isinstance(n, int):
            raise OutsideSubset("np.cum%s of a symbolic-length array" % which)
        items, acc = [], None
        for i in range(n):
            x = Sym(get(z3.IntVal(i)))
            acc = x if acc is None else (arith("*", acc, x) if which == "prod" else arith("+", acc, x))
            items.append(acc)
        return arr_copy(interp, interp.new_list(items), kind=k)
    return f


LOG10 = z3.Function("log10", z3.RealSort(), z3.RealSort())
POW10 = z3.Function("pow10", z3.RealSort(), z3.RealSort())


def np_logspace(interp, args, kw):
    """np.logspace(a, b, n)[j] = 10 ** linspace(a, b, n)[j] (axiom); 10**x is the uninterpreted pow10."""
    lin = np_linspace(interp, args, kw)
    used(interp, "logspace")
    n, get, _ = seq_view_frozen(interp, lin)
    return interp.array_from_fn(lambda j: POW10(get(j)), n, "real", "logspace")


axiom("logspace", "np.logspace(a,b,n) = 10**np.linspace(a,b,n); pow10(log10(x)) = x for x > 0 is instantiated where used")


def np_mean(interp, args, kw):
    """np.mean of a 1-D array: sum / length."""
    a = args[0]
    n, get, k = seq_view_frozen(interp, a)
    s = np_sum(interp, [a], {})
    ne = z3.IntVal(n) if isinstance(n, int) else n
    interp.side_obligation("np.mean of a non-empty array", ne > 0)
    se = to_real(num_expr(s))
    return Sym(se / z3.ToReal(ne))


def np_binary_ufunc(sym):
    """np.add / subtract / multiply / divide (true_divide) with the optional out= argument."""
    def f(interp, args, kw):
        a, b = args[0], args[1]
        out = kw.get("out", args[2] if len(args) > 2 else None)
        if isinstance(out, tuple):
            out = out[0]
        if out is not None:
            if out is a:
                return interp.binop({"+": ast.Add, "-": ast.Sub, "*": ast.Mult, "/": ast.Div}[sym], a, b, inplace=True)
            r = interp.binop({"+": ast.Add, "-": ast.Sub, "*": ast.Mult, "/": ast.Div}[sym], a, b)
            setitem(interp, out, slice(None, None, None), r)
            return out
        return interp.binop({"+": ast.Add, "-": ast.Sub, "*": ast.Mult, "/": ast.Div}[sym], a, b)
    return f


def np_size(interp, args, kw):
    return as_len(interp, args[0])


def np_sort(interp, args, kw):
    """np.sort: a permutation in non-decreasing order; modelled for the uses in resolution.py as an
    uninterpreted array with: same length, sorted, same minimum and maximum, every element of the input
    occurs in the output (Skolem position function) and vice versa."""
    a = args[0]
    n, get, k = seq_view_frozen(interp, a)
    if isinstance(n, int) and n <= 1:
        return arr_copy(interp, a)
    used(interp, "sort")
    cnt = len(interp.ghost.setdefault("sorts", []))
    sort = z3.RealSort() if k == "real" else z3.IntSort()
    out = z3.Function("sorted!%d" % cnt, z3.IntSort(), sort)
    pos = z3.Function("sortpos!%d" % cnt, z3.IntSort(), z3.IntSort())     # input index -> output index
    inv = z3.Function("sortinv!%d" % cnt, z3.IntSort(), z3.IntSort())     # output index -> input index
    i, j = z3.Int("i!sort"), z3.Int("j!sort")
    ne = z3.IntVal(n) if isinstance(n, int) else n
    # quantified facts go to interp.axioms (used by proofs, not by branch decisions)
    ax = interp.__dict__.setdefault("axioms", [])
    ax.append(z3.ForAll([i, j], z3.Implies(z3.And(0 <= i, i <= j, j < ne), out(i) <= out(j))))
    ax.append(z3.ForAll([i], z3.Implies(z3.And(0 <= i, i < ne),
                                        z3.And(pos(i) >= 0, pos(i) < ne, out(pos(i)) == get(i)))))
    ax.append(z3.ForAll([i], z3.Implies(z3.And(0 <= i, i < ne),
                                        z3.And(inv(i) >= 0, inv(i) < ne, get(inv(i)) == out(i)))))
    interp.ghost["sorts"].append((out, pos, inv, get, n))
    r = interp.array_from_fn(lambda jj: out(jj), n, k, "sorted")
    return r


axiom("sort", "np.sort returns the elements of its argument in non-decreasing order (a permutation)")


def np_dot_model(interp, args, kw):
    from . import pymat
    return pymat.np_dot(interp, args[0], args[1])


def np_outer_model(interp, args, kw):
    from . import pymat
    return pymat.np_outer(interp, args[0], args[1])


def np_isscalar(interp, args, kw):
    return is_scalar(args[0]) and not isinstance(args[0], SArr)


def np_any_method(interp, args, kw):
    return np_all_any("any")(interp, args, kw)


def copy_model(interp, args, kw):
    a = args[0]
    if isinstance(a, SObj):
        return interp.new_obj(a.cls, a.attrs, a.name)
    if isinstance(a, SList):
        return interp.new_list(a.items)
    if isinstance(a, SDict):
        return interp.new_dict(a.entries, a.ordered)
    if isinstance(a, SArr):
        return arr_copy(interp, a)
    return _copy.copy(a)


def deepcopy_model(interp, args, kw):
    """copy.deepcopy on modelled heap values: every mutable reachable from the argument is duplicated once."""
    memo = {}

    def dc(a):
        if isinstance(a, (SObj, SList, SDict)):
            if id(a) in memo:
                return memo[id(a)]
        if isinstance(a, SObj):
            new = interp.new_obj(a.cls, {}, a.name)
            memo[id(a)] = new
            for k, v in a.attrs.items():
                new.attrs[k] = dc(v)
            return new
        if isinstance(a, SList):
            new = interp.new_list([])
            memo[id(a)] = new
            new.items.extend(dc(x) for x in a.items)
            if getattr(a, "is_set", False):
                new.is_set = True
            return new
        if isinstance(a, SDict):
            new = interp.new_dict({}, a.ordered)
            memo[id(a)] = new
            for k, (p, v) in a.entries.items():
                new.entries[k] = (p, dc(v))
            return new
        if isinstance(a, SArr):
            return arr_copy(interp, a)
        if isinstance(a, tuple):
            return tuple(dc(x) for x in a)
        if isinstance(a, (Sym, int, float, str, bool, type(None))):
            return a
        return _copy.deepcopy(a)
    return dc(args[0])


def install(interp):
    m = interp.models
    m[_copy.deepcopy] = deepcopy_model
    m[len] = builtin_len
    m[sum] = builtin_sum
    m[getattr] = builtin_getattr
    m[setattr] = builtin_setattr
    m[hasattr] = builtin_hasattr
    m[isinstance] = builtin_isinstance
    m[list] = builtin_list
    m[sorted] = builtin_sorted
    m[tuple] = builtin_tuple
    m[dict] = builtin_dict
    m[enumerate] = builtin_enumerate
    m[zip] = builtin_zip
    m[range] = builtin_range
    m[slice] = lambda it, args, kw: slice(*args)

    def builtin_set(it, args, kw):
        out = it.new_list([])
        out.is_set = True
        if args:
            for x in it.iterate(args[0]):
                if is_sym(x):
                    raise OutsideSubset("symbolic item in a set")
                if x not in out.items:
                    out.items.append(x)
        return out
    m[set] = builtin_set
    m[abs] = builtin_abs
    m[min] = builtin_minmax("min")
    m[max] = builtin_minmax("max")
    m[float] = builtin_float
    m[int] = builtin_int
    m[bool] = builtin_bool
    m[all] = builtin_all_any("all")
    m[any] = builtin_all_any("any")
    import collections
    m[collections.OrderedDict] = builtin_ordered_dict
    m[_copy.copy] = copy_model
    m[np.array] = np_array
    m[np.asarray] = np_asarray
    m[np.ascontiguousarray] = np_asarray
    m[np.hstack] = np_hstack
    m[np.prod] = np_prod
    m[np.isnan] = np_isnan
    m[np.linspace] = np_linspace
    m[np.ones_like] = np_ones_like
    m[np.insert] = np_insert
    m[np.concatenate] = np_hstack
    m[np.sum] = np_sum
    m[np.all] = np_all_any("all")
    m[np.any] = np_all_any("any")
    m[np.zeros] = np_zeros_like(0)
    m[np.ones] = np_zeros_like(1)
    m[np.empty] = np_zeros_like(None)
    m[np.diff] = np_diff
    m[np.maximum] = np_maxmin2("max")
    m[np.clip] = np_clip
    m[np.minimum] = np_maxmin2("min")
    m[np.min] = np_extreme("min")
    m[np.max] = np_extreme("max")
    m[np.amin] = np_extreme("min")
    m[np.amax] = np_extreme("max")
    m[np.sort] = np_sort
    m[np.arange] = np_arange
    m[np.add] = np_binary_ufunc("+")
    m[np.subtract] = np_binary_ufunc("-")
    m[np.multiply] = np_binary_ufunc("*")
    m[np.divide] = np_binary_ufunc("/")
    m[np.true_divide] = np_binary_ufunc("/")
    m[np.mean] = np_mean
    m[np.logspace] = np_logspace
    m[np.log10] = unary_real(LOG10, np.log10)
    m[math.log10] = unary_real(LOG10, math.log10)
    m[np.where] = np_where3
    m[np.argsort] = np_argsort
    m[np.cumprod] = np_cumop("prod")
    m[np.cumsum] = np_cumop("sum")
    m[np.ceil] = np_ceil
    m[math.ceil] = np_ceil
    m[np.size] = np_size
    m[np.argmin] = np_argextreme("min")
    m[np.argmax] = np_argextreme("max")
    m[np.dot] = np_dot_model
    m[np.outer] = np_outer_model
    m[np.isscalar] = np_isscalar
    m[np.sqrt] = unary_real(SQRT, np.sqrt)
    m[math.sqrt] = unary_real(SQRT, math.sqrt)
    m[np.exp] = unary_real(EXP, np.exp)
    m[math.exp] = unary_real(EXP, math.exp)
    m[np.log] = unary_real(LOG, np.log)
    m[math.log] = unary_real(LOG, math.log)
    m[np.sin] = unary_real(SIN, np.sin)
    m[np.cos] = unary_real(COS, np.cos)
    m[math.sin] = unary_real(SIN, math.sin)
    m[math.cos] = unary_real(COS, math.cos)
    m[np.arcsin] = unary_real(ARCSIN, np.arcsin, domain=lambda x: z3.And(x >= -1, x <= 1))
    m[np.abs] = unary_real(z3_abs, np.abs)
    m[np.fabs] = unary_real(z3_abs, np.fabs)
    m[math.fabs] = unary_real(z3_abs, math.fabs)
    m[np.radians] = unary_real(z3_radians, np.radians)
    m[math.radians] = unary_real(z3_radians, math.radians)
    try:
        from scipy import special
        m[special.erf] = unary_real(ERF, special.erf)
        m[special.j0] = unary_real(J0, special.j0)
        m[special.gammaln] = unary_real(GAMMALN, special.gammaln)
    except Exception:
        pass
