"""
rex -- Python `re` patterns as z3 regular expressions.

The pattern text is taken from the live module (compiled pattern objects or the
AST of the call that uses it), parsed with CPython's own regex parser
(re._parser) and translated node by node; language-level lemmas about the
pattern (inclusion, equivalence, prefix and overlap freedom) are then
satisfiability queries over z3's theory of strings and regular expressions,
for strings of any length.

Assumptions of the encoding (reported in the evidence):
  * the alphabet is 7-bit ASCII (C source text); \\w = [A-Za-z0-9_], \\d = [0-9],
    \\s = [ \\t\\n\\r\\f\\v]
  * look-around assertions are only supported as a leading look-behind and a
    trailing look-ahead on one character class; they are returned separately
    as context conditions (Pattern.before / Pattern.after)
  * matching priority (leftmost, backtracking order) is not modelled: lemmas
    are stated so that they hold for any choice among possible matches
"""
import re

import z3

try:
    from re import _parser as sre_parse, _constants as sre
except ImportError:                              # python < 3.11
    import sre_parse
    import sre_constants as sre

from vp.core import OutsideSubset

ASCII = z3.Range(chr(0), chr(127))
EMPTY = z3.Empty(z3.ReSort(z3.StringSort()))
EPS = z3.Re(z3.StringVal(""))


def _union(items):
    items = list(items)
    if not items:
        return EMPTY
    if len(items) == 1:
        return items[0]
    return z3.Union(*items)


def _concat(items):
    items = list(items)
    if not items:
        return EPS
    if len(items) == 1:
        return items[0]
    return z3.Concat(*items)


def char_class(spec):
    """z3 regex of one character from 'a-zA-Z0-9_' style text."""
    out, i = [], 0
    while i < len(spec):
        if i + 2 < len(spec) and spec[i + 1] == "-":
            out.append(z3.Range(spec[i], spec[i + 2]))
            i += 3
        else:
            out.append(z3.Re(z3.StringVal(spec[i])))
            i += 1
    return _union(out)


WORD = char_class("a-zA-Z0-9_")
DIGIT = char_class("0-9")
SPACE = _union([z3.Re(z3.StringVal(c)) for c in " \t\n\r\f\v"])
NONWORD = z3.Intersect(ASCII, z3.Complement(WORD))


def _category(cat):
    name = str(cat)
    table = {"CATEGORY_DIGIT": DIGIT, "CATEGORY_WORD": WORD, "CATEGORY_SPACE": SPACE,
             "CATEGORY_NOT_DIGIT": z3.Intersect(ASCII, z3.Complement(DIGIT)),
             "CATEGORY_NOT_WORD": NONWORD,
             "CATEGORY_NOT_SPACE": z3.Intersect(ASCII, z3.Complement(SPACE))}
    if name not in table:
        raise OutsideSubset("regex category %s" % name)
    return table[name]


def _set(items):
    negate, parts = False, []
    for op, av in items:
        op = str(op)
        if op == "NEGATE":
            negate = True
        elif op == "LITERAL":
            parts.append(z3.Re(z3.StringVal(chr(av))))
        elif op == "RANGE":
            parts.append(z3.Range(chr(av[0]), chr(av[1])))
        elif op == "CATEGORY":
            parts.append(_category(av))
        else:
            raise OutsideSubset("regex set item %s" % op)
    r = _union(parts)
    return z3.Intersect(ASCII, z3.Complement(r)) if negate else r


class Pattern(object):
    """Translated pattern: consumed language plus zero-width context."""

    def __init__(self, text, flags=0, begin_is="eps"):
        self.text = text
        self.tree = sre_parse.parse(text, flags)
        self.groups = {}          # group number -> z3 regex of what it consumed
        self.before = None        # ('not', class) / ('is', class): look-behind on one char
        self.after = None         # look-ahead on one char (class) or end: ('not', cls) / ('is_or_end', cls)
        self.begin_is = begin_is  # how '^' is modelled: 'eps' (start allowed) or 'empty' (not at start)
        items = list(self.tree)
        if items and str(items[0][0]) == "ASSERT_NOT" and items[0][1][0] == -1:
            self.before = ("not", self._one_char(items[0][1][1]))
            items = items[1:]
        if items and str(items[-1][0]) in ("ASSERT_NOT", "ASSERT") and items[-1][1][0] == 1:
            self.after = self._lookahead(items[-1])
            items = items[:-1]
        self.re = self._seq(items, top=True)

    # -- look-around ------------------------------------------------------
    def _one_char(self, sub):
        sub = list(sub)
        if len(sub) != 1:
            raise OutsideSubset("look-around on more than one item")
        op, av = sub[0]
        op = str(op)
        if op == "IN":
            return _set(av)
        if op == "LITERAL":
            return z3.Re(z3.StringVal(chr(av)))
        raise OutsideSubset("look-around item %s" % op)

    def _lookahead(self, item):
        op, (direction, sub) = item
        sub = list(sub)
        if str(op) == "ASSERT_NOT":
            return ("not", self._one_char(sub))
        # (?=$|[^...]) : end of text or one char of a class
        if len(sub) == 1 and str(sub[0][0]) == "BRANCH":
            at_end, cls = False, []
            for alt in sub[0][1][1]:
                alt = list(alt)
                if len(alt) == 1 and str(alt[0][0]) == "AT" and str(alt[0][1]) in ("AT_END", "AT_END_STRING"):
                    at_end = True
                else:
                    cls.append(self._one_char(alt))
            if at_end:
                return ("is_or_end", _union(cls))
            return ("is", _union(cls))
        try:
            return ("is", self._one_char(sub))
        except OutsideSubset:
            # general positive look-ahead: the following text has a prefix in this language
            return ("re", self._seq(sub))

    # -- consumed language --------------------------------------------------
    def _seq(self, items, top=False):
        out = []
        items = list(items)
        for k, (op, av) in enumerate(items):
            name = str(op)
            if name == "LITERAL":
                out.append(z3.Re(z3.StringVal(chr(av))))
            elif name == "NOT_LITERAL":
                out.append(z3.Intersect(ASCII, z3.Complement(z3.Re(z3.StringVal(chr(av))))))
            elif name == "ANY":
                out.append(z3.Intersect(ASCII, z3.Complement(z3.Re(z3.StringVal("\n")))))
            elif name == "IN":
                out.append(_set(av))
            elif name == "BRANCH":
                out.append(_union(self._seq(alt) for alt in av[1]))
            elif name == "SUBPATTERN":
                group, _add, _del, sub = av
                r = self._seq(sub)
                if group:
                    self.groups[group] = r
                out.append(r)
            elif name in ("MAX_REPEAT", "MIN_REPEAT"):
                lo, hi, sub = av
                r = self._seq(sub)
                if hi == sre.MAXREPEAT:
                    out.append(z3.Concat(z3.Loop(r, lo, lo), z3.Star(r)) if lo > 0 else z3.Star(r))
                elif lo == 0 and hi == 1:
                    out.append(z3.Option(r))
                else:
                    out.append(z3.Loop(r, lo, hi))
            elif name == "AT":
                where = str(av)
                if where in ("AT_BEGINNING", "AT_BEGINNING_STRING"):
                    out.append(EPS if self.begin_is == "eps" else EMPTY)
                elif where in ("AT_END", "AT_END_STRING"):
                    # only sound as the last thing consumed: recorded as context by callers
                    self.end_anchor = True
                    out.append(EPS)
                elif where == "AT_BOUNDARY":
                    self.boundaries = getattr(self, "boundaries", 0) + 1
                    out.append(EPS)
                else:
                    raise OutsideSubset("regex anchor %s" % where)
            elif name in ("ASSERT", "ASSERT_NOT"):
                if av[0] == 1 and k == len(items) - 1:
                    # trailing look-ahead inside a group: zero width, recorded as context
                    self.after = self._lookahead((op, av))
                    out.append(EPS)
                else:
                    raise OutsideSubset("look-around inside the pattern")
            else:
                raise OutsideSubset("regex operator %s" % name)
        return _concat(out)


def pattern_of(obj):
    """Pattern for a compiled pattern object."""
    return Pattern(obj.pattern, obj.flags & (re.VERBOSE | re.MULTILINE | re.IGNORECASE | re.DOTALL))


def regex(text, flags=0):
    """z3 regex of a pattern without look-around (used for the specifications)."""
    p = Pattern(text, flags)
    if p.before or p.after:
        raise OutsideSubset("specification regex with look-around")
    return p.re


def check_unsat(constraints, timeout_ms=60000):
    s = z3.Solver()
    s.set("timeout", timeout_ms)
    for c in constraints:
        s.add(c)
    r = s.check()
    if r == z3.sat:
        return "sat", s.model()
    return ("unsat" if r == z3.unsat else "unknown"), None
