"""
zreal -- run REAL numpy code on arrays of symbolic reals.

numpy arrays of dtype=object whose elements are ZReal objects: every numpy
operation that only moves elements around (repeat, reshape, transpose, flatten,
outer, indexing, broadcasting) is executed by numpy itself, arithmetic and the
ufuncs cos/sin/sqrt/arctan/exp are overloaded to build z3 terms.  The function
under contract is the unmodified function object of the repository module; the
array SHAPES are concrete (enumerated by the harness), the VALUES are symbolic.
"""
from fractions import Fraction

import numpy as np
import z3

R = z3.RealSort()
COS = z3.Function("cos", R, R)
SIN = z3.Function("sin", R, R)
SQRT = z3.Function("sqrt", R, R)
ATAN = z3.Function("arctan", R, R)
EXP = z3.Function("exp", R, R)


def _const(x):
    if isinstance(x, ZReal):
        return x.e
    if isinstance(x, (int, np.integer)):
        return z3.RealVal(int(x))
    if isinstance(x, (float, np.floating)):
        f = Fraction(float(x))
        return z3.RealVal(f.numerator) / z3.RealVal(f.denominator) if f.denominator != 1 else z3.RealVal(f.numerator)
    raise TypeError("not a real: %r" % (x,))


def _neg_arg(e):
    """(True, t) if e is syntactically -t."""
    if z3.is_app(e) and e.decl().kind() == z3.Z3_OP_UMINUS:
        return True, e.arg(0)
    if z3.is_app(e) and e.decl().kind() == z3.Z3_OP_MUL and e.num_args() == 2 and z3.is_rational_value(e.arg(0)) \
            and e.arg(0).as_fraction() == -1:
        return True, e.arg(1)
    return False, e


class ZReal(object):
    __slots__ = ("e",)
    __array_priority__ = 1000

    def __init__(self, e):
        self.e = e

    def __repr__(self):
        return "ZReal(%s)" % (self.e,)

    def _b(self, o, f):
        try:
            return ZReal(f(self.e, _const(o)))
        except TypeError:
            return NotImplemented

    def _rb(self, o, f):
        try:
            return ZReal(f(_const(o), self.e))
        except TypeError:
            return NotImplemented

    def __add__(self, o): return self._b(o, lambda a, b: a + b)
    def __radd__(self, o): return self._rb(o, lambda a, b: a + b)
    def __sub__(self, o): return self._b(o, lambda a, b: a - b)
    def __rsub__(self, o): return self._rb(o, lambda a, b: a - b)
    def __mul__(self, o): return self._b(o, lambda a, b: a * b)
    def __rmul__(self, o): return self._rb(o, lambda a, b: a * b)
    def __truediv__(self, o): return self._b(o, lambda a, b: a / b)
    def __rtruediv__(self, o): return self._rb(o, lambda a, b: a / b)
    def __neg__(self): return ZReal(-self.e)
    def __pos__(self): return self

    def __pow__(self, k):
        if isinstance(k, (int, np.integer)) or (isinstance(k, float) and k == int(k)):
            k = int(k)
            if k == 2:
                return ZReal(self.e * self.e)
            if k >= 0:
                out = z3.RealVal(1)
                for _ in range(k):
                    out = out * self.e
                return ZReal(out)
        return NotImplemented

    def __lt__(self, o):
        raise TypeError("comparison of symbolic values inside numpy code is not modelled")
    __le__ = __gt__ = __ge__ = __lt__

    # ufunc fall-backs used by numpy for object arrays
    def cos(self):
        neg, t = _neg_arg(self.e)
        return ZReal(COS(t))

    def sin(self):
        neg, t = _neg_arg(self.e)
        return ZReal(-SIN(t)) if neg else ZReal(SIN(t))

    def sqrt(self):
        return ZReal(SQRT(self.e))

    def arctan(self):
        return ZReal(ATAN(self.e))

    def exp(self):
        return ZReal(EXP(self.e))


def symbols(prefix, n):
    out = np.empty(n, dtype=object)
    for i in range(n):
        out[i] = ZReal(z3.Real("%s_%d" % (prefix, i)))
    return out


def term(x):
    return _const(x)
