"""
Core of the verification framework: obligation registry, solver portfolio,
verdict policy (exit codes 0/1/2/3), evidence writer, known findings.

Everything here is engine independent; pyvc (Python AST -> z3), cvc (clang
JSON AST -> z3), symcheck and smtstr register obligations through `Registry`.
"""
from __future__ import annotations

import json
import os
import subprocess
import sys
import time
import traceback
import hashlib
import tempfile
import shutil

import z3

VERIF = os.path.dirname(os.path.dirname(os.path.abspath(__file__)))
REPO = os.environ.get("VERIF_REPO", "/repo")
SEED = int(os.environ.get("VERIF_SEED", "0") or 0)

EXIT_HELD, EXIT_VIOLATION, EXIT_UNDECIDED, EXIT_ERROR = 0, 1, 2, 3

Z3_TIMEOUT_MS = int(os.environ.get("VERIF_Z3_MS", "20000"))
CVC5_TIMEOUT_MS = int(os.environ.get("VERIF_CVC5_MS", "30000"))

ARITH_ASSUMPTION = ("machine arithmetic treated as mathematical "
                    "(IEEE-754 rounding, overflow to inf and NaN unverified)")


class OutsideSubset(Exception):
    """The code under contract left the subset the engine models."""


class CheckerError(Exception):
    """The checker itself is broken (vacuity guard, zero obligations...)."""


# --------------------------------------------------------------------------
# solver portfolio
# --------------------------------------------------------------------------

def _cvc5_check(smt2, timeout_ms, logic_opts=()):
    """Run /usr/bin/cvc5 on an SMT-LIB2 benchmark; returns 'sat'/'unsat'/'unknown'."""
    exe = shutil.which("cvc5") or "/usr/bin/cvc5"
    with tempfile.NamedTemporaryFile("w", suffix=".smt2", delete=False) as fd:
        fd.write(smt2)
        path = fd.name
    try:
        cmd = [exe, "--lang=smt2", "--tlimit=%d" % timeout_ms] + list(logic_opts) + [path]
        try:
            out = subprocess.run(cmd, capture_output=True, text=True,
                                 timeout=timeout_ms / 1000.0 + 5)
        except subprocess.TimeoutExpired:
            return "unknown"
        first = (out.stdout.strip().splitlines() or ["unknown"])[0].strip()
        return first if first in ("sat", "unsat") else "unknown"
    finally:
        os.unlink(path)


def purify(exprs):
    """Replace applications of uninterpreted functions by fresh constants (one
    per syntactically distinct application, innermost first).  Sound for
    validity: a formula valid with the applications read as free variables is
    valid for every interpretation of the functions."""
    cache = {}
    memo = {}

    def walk(e):
        key = e.get_id()
        if key in memo:
            return memo[key]
        if z3.is_quantifier(e) or z3.is_var(e):
            memo[key] = e
            return e
        if not z3.is_app(e):
            memo[key] = e
            return e
        args = [walk(a) for a in e.children()]
        d = e.decl()
        if d.kind() == z3.Z3_OP_UNINTERPRETED and d.arity() > 0:
            app = d(*args)
            k = app.sexpr()
            if k not in cache:
                cache[k] = z3.Const("uf!%d!%s" % (len(cache), d.name()), e.sort())
            r = cache[k]
        elif args:
            try:
                r = d(*args)
            except Exception:
                r = e
        else:
            r = e
        memo[key] = r
        return r
    return [walk(e) for e in exprs], cache


def solve(assumptions, goal, timeout_ms=None, use_cvc5=True, nl=False):
    """Decide whether `assumptions => goal` is valid.

    Returns (status, model, backend, seconds) with status in
    {'unsat' (valid), 'sat' (counter-model), 'unknown'}.
    """
    timeout_ms = timeout_ms or Z3_TIMEOUT_MS
    t0 = time.time()
    if nl and not any(z3.is_quantifier(a) for a in assumptions):
        # polynomial identities around special functions: decide the purified
        # (function applications as free reals) problem with nlsat first
        try:
            pur, _ = purify(list(assumptions) + [goal])
            t = z3.Tactic("qfnra-nlsat")
            sp = t.solver()
            sp.set("timeout", min(timeout_ms, 8000))
            for a in pur[:-1]:
                sp.add(a)
            sp.add(z3.Not(pur[-1]))
            if sp.check() == z3.unsat:
                return "unsat", None, "z3-nlsat(purified)", time.time() - t0
        except z3.Z3Exception:
            pass
    s = z3.Solver()
    s.set("timeout", timeout_ms)
    for a in assumptions:
        s.add(a)
    s.add(z3.Not(goal))
    r = s.check()
    dt = time.time() - t0
    if r == z3.unsat:
        return "unsat", None, "z3", dt
    if r == z3.sat:
        return "sat", s.model(), "z3", dt
    # second attempt: z3 with nlsat tactic for nonlinear real problems
    if nl:
        try:
            t = z3.Then("simplify", "purify-arith", "nlsat") if False else z3.Tactic("qfnra-nlsat")
            s2 = t.solver()
            s2.set("timeout", timeout_ms)
            for a in assumptions:
                s2.add(a)
            s2.add(z3.Not(goal))
            r2 = s2.check()
            if r2 == z3.unsat:
                return "unsat", None, "z3-nlsat", time.time() - t0
            if r2 == z3.sat:
                return "sat", s2.model(), "z3-nlsat", time.time() - t0
        except z3.Z3Exception:
            pass
    if use_cvc5:
        try:
            smt2 = s.to_smt2()
            # z3 prints (set-info ...) and declarations; add a logic
            smt2 = "(set-logic ALL)\n" + smt2
            r3 = _cvc5_check(smt2, CVC5_TIMEOUT_MS, ["--nl-ext-tplanes"] if nl else [])
            if r3 == "unsat":
                return "unsat", None, "cvc5", time.time() - t0
            # a cvc5 'sat' has no model here; leave it as unknown so that it is
            # never reported as a violation without a replayable witness
        except Exception:
            pass
    return "unknown", None, "z3+cvc5", time.time() - t0


def prove_eq_decomposed(assumptions, a, b, timeout_ms=5000, depth=0):
    """Prove a == b: directly (short budget); if undecided and both terms are
    applications of the same operator, prove the arguments equal pairwise
    (congruence).  Returns (status, backend, seconds) with status 'unsat'
    (equal), 'sat' or 'unknown'."""
    t0 = time.time()
    if z3.eq(z3.simplify(a), z3.simplify(b)):
        return "unsat", "syntactic", 0.0
    st, model, backend, dt = solve(assumptions, a == b, timeout_ms=timeout_ms, use_cvc5=False,
                                   nl=not any(z3.is_quantifier(x) for x in assumptions))
    if st == "unsat":
        return "unsat", backend, time.time() - t0
    if depth < 6 and z3.is_app(a) and z3.is_app(b) and a.decl().eq(b.decl()) and a.num_args() == b.num_args() \
            and a.num_args() > 0:
        worst = "unsat"
        for x, y in zip(a.children(), b.children()):
            if x.sort() != y.sort():
                return "unknown", "decomposition", time.time() - t0
            r, _, _ = prove_eq_decomposed(assumptions, x, y, timeout_ms, depth + 1)
            if r != "unsat":
                worst = "unknown"
                break
        if worst == "unsat":
            return "unsat", "congruence+" + backend, time.time() - t0
    return ("sat" if st == "sat" and depth == 0 else "unknown"), backend, time.time() - t0


def model_to_dict(model):
    out = {}
    if model is None:
        return out
    for d in model.decls():
        try:
            v = model[d]
            out[d.name()] = str(v)
        except Exception:
            pass
    return out


def z3val(model, e, default=0):
    """Evaluate z3 expression `e` in `model` to a Python number/bool."""
    if model is None:
        return default
    v = model.eval(e, model_completion=True)
    if z3.is_true(v):
        return True
    if z3.is_false(v):
        return False
    if z3.is_int_value(v):
        return v.as_long()
    if z3.is_rational_value(v):
        return float(v.numerator_as_long()) / float(v.denominator_as_long())
    if z3.is_algebraic_value(v):
        a = v.approx(20)
        return float(a.numerator_as_long()) / float(a.denominator_as_long())
    try:
        return float(str(v))
    except Exception:
        return default


# --------------------------------------------------------------------------
# registry
# --------------------------------------------------------------------------

class Obligation(object):
    def __init__(self, oid, function=None, engine="pyvc", kind="proof", bound=None):
        self.id = oid
        self.function = function
        self.engine = engine
        self.kind = kind          # 'proof' | 'bounded' | 'cover' | 'canary'
        self.bound = bound
        self.instances = 0        # path instances
        self.status = None        # 'discharged' | 'violated' | 'undecided'
        self.backends = set()
        self.seconds = 0.0
        self.detail = None        # witness / reason
        self.replay = None        # replay file (violation)
        self.known = None         # known finding text

    def merge(self, status):
        order = {None: 0, "discharged": 1, "known": 2, "undecided": 3, "violated": 4}
        if order[status] > order[self.status]:
            self.status = status


class Registry(object):
    """All obligations of one property check."""

    def __init__(self, prop, tier):
        self.prop = prop
        self.tier = tier
        self.t0 = time.time()
        self.obligations = {}       # id -> Obligation
        self.functions = {}         # qualified name -> {file, lines, sha256}
        self.assumptions = [ARITH_ASSUMPTION]
        self.trusted = []
        self.notes = []
        self.samples = []
        self.errors = []
        self.known_printed = []
        self.extra = {}
        self.solver_seconds = 0.0
        self._known = load_known_findings().get(prop, [])

    # -- bookkeeping -------------------------------------------------------
    def function_under_contract(self, qualname, path, lineno, end_lineno, text):
        self.functions[qualname] = {
            "file": os.path.relpath(path, REPO) if path.startswith(REPO) else path,
            "lines": [lineno, end_lineno],
            "sha256": hashlib.sha256(text.encode()).hexdigest()[:16],
        }

    def assume(self, text):
        if text not in self.assumptions:
            self.assumptions.append(text)

    def trust(self, text):
        if text not in self.trusted:
            self.trusted.append(text)

    def ob(self, oid, **kw):
        o = self.obligations.get(oid)
        if o is None:
            o = self.obligations[oid] = Obligation(oid, **kw)
        return o

    # -- deciding ----------------------------------------------------------
    def prove(self, oid, assumptions, goal, function=None, engine="pyvc",
              kind="proof", bound=None, replay=None, nl=False, timeout_ms=None,
              describe=None, poly=None):
        """Discharge `assumptions => goal`.

        replay: callable(model) -> (reproduced: bool, info: dict) running the
        real code at the counter-model; None when no adapter can exist.
        Returns True iff discharged.
        """
        o = self.ob(oid, function=function, engine=engine, kind=kind, bound=bound)
        o.instances += 1
        if isinstance(goal, bool):
            goal = z3.BoolVal(goal)
        if poly is not None:
            # polynomial identity modulo sin^2+cos^2=1 (complete normal form)
            from . import polynf
            t0 = time.time()
            pst, wit = polynf.decide(goal, poly)
            dt = time.time() - t0
            if pst == "unsat":
                o.backends.add("polynf")
                o.seconds += dt
                self.solver_seconds += dt
                o.merge("discharged")
                self._selftest_replay(oid, replay)
                if len(self.samples) < 6:
                    self.samples.append({"obligation": oid, "status": "discharged",
                                         "backend": "polynomial normal form", "seconds": round(dt, 4),
                                         "goal": _short(goal)})
                return True
            if pst == "sat":
                info = {"obligation": oid, "witness": wit, "goal": _short(goal, 2000),
                        "backend": "polynf: normal forms differ; numeric witness found"}
                o.backends.add("polynf")
                if replay is None:
                    info["replay"] = "no-adapter"
                    self._violation(o, info, reproduced=None)
                    return False
                try:
                    reproduced, rinfo = replay(None)
                except Exception:
                    reproduced, rinfo = False, {"replay_error": traceback.format_exc()}
                info["replay"] = rinfo
                if reproduced:
                    self._violation(o, info, reproduced=True)
                else:
                    o.merge("undecided")
                    o.detail = {"reason": "polynomial identity fails but the real code did not "
                                          "reproduce a difference", "info": info}
                return False
        status, model, backend, dt = solve(assumptions, goal, nl=nl, timeout_ms=timeout_ms)
        o.backends.add(backend)
        o.seconds += dt
        self.solver_seconds += dt
        if status == "unsat":
            o.merge("discharged")
            self._selftest_replay(oid, replay)
            if len(self.samples) < 6:
                self.samples.append({"obligation": oid, "status": "discharged",
                                     "backend": backend, "seconds": round(dt, 4),
                                     "goal": _short(goal)})
            return True
        if status == "unknown":
            # no verdict from the solver: the replay adapter may still exhibit a failing input on the real
            # code (then it is a violation with that input); otherwise the obligation stays undecided
            if replay is not None:
                try:
                    reproduced, rinfo = replay(None)
                except Exception:
                    reproduced, rinfo = False, {"replay_error": traceback.format_exc()}
                if reproduced:
                    self._violation(o, {"obligation": oid, "goal": _short(goal, 2000), "solver": "unknown/timeout",
                                        "replay": rinfo}, reproduced=True)
                    return False
            o.merge("undecided")
            o.detail = {"reason": "solver unknown/timeout", "backend": backend,
                        "goal": _short(goal, 2000)}
            return False
        # sat: replay
        info = {"obligation": oid, "model": model_to_dict(model),
                "goal": _short(goal, 4000)}
        if isinstance(describe, str):
            info["statement"] = describe
        elif describe is not None:
            try:
                info["witness"] = describe(model)
            except Exception as exc:  # pragma: no cover
                info["witness_error"] = repr(exc)
        if replay is None:
            info["replay"] = "no-adapter"
            self._violation(o, info, reproduced=None)
            return False
        try:
            reproduced, rinfo = replay(model)
        except Exception as exc:
            reproduced, rinfo = False, {"replay_error": traceback.format_exc()}
        info["replay"] = rinfo
        if reproduced:
            self._violation(o, info, reproduced=True)
        elif reproduced is None:
            # adapter says: counter-model concerns ghost state only
            self._violation(o, info, reproduced=None)
        else:
            o.merge("undecided")
            if isinstance(info.get("replay"), dict) and "replay_error" in info["replay"]:
                last = info["replay"]["replay_error"].strip().splitlines()[-1]
                o.detail = {"reason": "replay adapter raised (%s); obligation not discharged" % last, "info": info}
            else:
                o.detail = {"reason": "counter-model did not replay on the real code "
                                      "(artefact of an uninterpreted symbol or spec mismatch)",
                            "info": info}
        return False

    def _selftest_replay(self, oid, replay):
        """VERIF_SELFTEST_REPLAYS=1 (self-validation of the machinery, not part of any check): after an obligation
        has been DISCHARGED its replay adapter is run as well; an adapter that 'reproduces a failure' on code whose
        obligation holds would confirm spurious counterexamples, and is reported as a checker error."""
        if replay is None or os.environ.get("VERIF_SELFTEST_REPLAYS") != "1":
            return
        key = getattr(replay, "__code__", None)
        key = (key.co_filename, key.co_firstlineno) if key is not None else id(replay)
        seen = self.__dict__.setdefault("_selftested", {})
        if key in seen:
            return
        seen[key] = True
        try:
            reproduced, rinfo = replay(None)
        except Exception:         # noqa  (adapters that need the solver's model cannot be run without one)
            return
        if reproduced:
            self.errors.append("replay adapter of %s reports a failing input although the obligation is discharged: %s"
                               % (oid, str(rinfo)[:300]))


    def prove_by_cases(self, oid, assumptions, goal, atoms, **kw):
        """Discharge `assumptions => goal` by splitting on the truth of `atoms`
        (all 2^n sign patterns; the same obligation id, one instance per case)."""
        ok = True
        n = len(atoms)
        for bits in range(2 ** n):
            case = [a if (bits >> i) & 1 else z3.Not(a) for i, a in enumerate(atoms)]
            ok = self.prove(oid, list(assumptions) + case, goal, **kw) and ok
        return ok

    def fail(self, oid, info, function=None, engine="pyvc", reproduced=True, kind="proof"):
        """Record a violation found by direct evaluation (replayed witness)."""
        o = self.ob(oid, function=function, engine=engine, kind=kind)
        o.instances += 1
        self._violation(o, dict(info, obligation=oid), reproduced=reproduced)

    def passed(self, oid, function=None, engine="pyvc", kind="proof", backend="z3",
               seconds=0.0, bound=None, sample=None):
        o = self.ob(oid, function=function, engine=engine, kind=kind, bound=bound)
        o.instances += 1
        o.backends.add(backend)
        o.seconds += seconds
        o.merge("discharged")
        if sample is not None and len(self.samples) < 6:
            self.samples.append(sample)

    def undecided(self, oid, reason, function=None, engine="pyvc", kind="proof"):
        o = self.ob(oid, function=function, engine=engine, kind=kind)
        o.instances += 1
        o.merge("undecided")
        o.detail = {"reason": reason}

    def _violation(self, o, info, reproduced):
        # known finding?
        for kf in self._known:
            if kf["obligation"] == o.id and kf.get("status") == "known":
                o.known = kf["text"]
                if o.status in (None, "discharged"):
                    o.status = "known"
                o.detail = info
                return
        o.merge("violated")
        o.detail = info
        o.reproduced = reproduced
        os.makedirs(os.path.join(VERIF, "replay", "out"), exist_ok=True)
        path = os.path.join(VERIF, "replay", "out",
                            "%s.%s.json" % (self.prop, o.id.replace("/", "_")))
        with open(path, "w") as fd:
            json.dump({"property": self.prop, "obligation": o.id,
                       "reproduced_on_real_code": reproduced, "info": info},
                      fd, indent=1, default=str)
        o.replay = os.path.relpath(path, VERIF)

    # -- parallel sub-registries ---------------------------------------------
    def export(self):
        return {"obligations": self.obligations, "functions": self.functions,
                "assumptions": self.assumptions, "trusted": self.trusted,
                "notes": self.notes, "samples": self.samples, "errors": self.errors,
                "extra": self.extra, "solver_seconds": self.solver_seconds}

    def absorb(self, exp):
        order = {None: 0, "discharged": 1, "known": 2, "undecided": 3, "violated": 4}
        for oid, o in exp["obligations"].items():
            mine = self.obligations.get(oid)
            if mine is None:
                self.obligations[oid] = o
                continue
            mine.instances += o.instances
            mine.seconds += o.seconds
            mine.backends |= o.backends
            if order[o.status] > order[mine.status]:
                mine.status = o.status
                mine.detail = o.detail
                mine.replay = o.replay
                mine.known = o.known
                if hasattr(o, "reproduced"):
                    mine.reproduced = o.reproduced
        self.functions.update(exp["functions"])
        for a in exp["assumptions"]:
            self.assume(a)
        for a in exp["trusted"]:
            self.trust(a)
        self.notes.extend(n for n in exp["notes"] if n not in self.notes)
        for s in exp["samples"]:
            if len(self.samples) < 6:
                self.samples.append(s)
        self.errors.extend(exp["errors"])
        for k, v in exp["extra"].items():
            if isinstance(v, list) and isinstance(self.extra.get(k), list):
                self.extra[k].extend(x for x in v if x not in self.extra[k])
            elif isinstance(v, dict) and isinstance(self.extra.get(k), dict):
                self.extra[k].update(v)
            else:
                self.extra[k] = v
        self.solver_seconds += exp["solver_seconds"]

    # -- finishing ---------------------------------------------------------
    def finish(self, level="proof", checker_cmd=None, extra_cov=None):
        """Write evidence, print verdict lines, return the exit code."""
        obs = list(self.obligations.values())
        proof = [o for o in obs if o.kind == "proof"]
        bounded = [o for o in obs if o.kind == "bounded"]
        covers = [o for o in obs if o.kind in ("cover", "canary")]
        violated = [o for o in obs if o.status == "violated"]
        undecided = [o for o in obs if o.status == "undecided"]
        known = [o for o in obs if o.status == "known"]
        code = EXIT_HELD
        if self.errors:
            code = EXIT_ERROR
        elif not proof and not bounded:
            self.errors.append("zero obligations generated")
            code = EXIT_ERROR
        elif violated:
            code = EXIT_VIOLATION
        elif undecided:
            code = EXIT_UNDECIDED
        # baseline: every obligation id of the committed baseline must exist
        base = load_baseline().get(self.prop, {}).get(self.tier)
        missing = []
        if base is not None and code == EXIT_HELD:
            have = set(self.obligations)
            missing = [b for b in base if b not in have]
            if missing:
                code = EXIT_UNDECIDED
        for o in known:
            print("KNOWN-FINDING: property=%s %s" % (self.prop, o.known))
        for o in violated:
            tail = "" if getattr(o, "reproduced", True) else " no-failing-input-found"
            print("obligation %s FAILED (%s)" % (o.id, o.function))
        if violated:
            o = violated[0]
            tail = "" if getattr(o, "reproduced", True) else " no-failing-input-found"
            # one summary replay file when several obligations fail
            path = o.replay
            if len(violated) > 1:
                path = os.path.join("replay", "out", "%s.ALL.json" % self.prop)
                with open(os.path.join(VERIF, path), "w") as fd:
                    json.dump({"property": self.prop,
                               "failed_obligations": [
                                   {"obligation": v.id, "replay": v.replay,
                                    "reproduced_on_real_code": getattr(v, "reproduced", True),
                                    "info": v.detail} for v in violated]},
                              fd, indent=1, default=str)
                if all(getattr(v, "reproduced", True) is None for v in violated):
                    tail = " no-failing-input-found"
                else:
                    tail = ""
            print("VIOLATION property=%s replay=%s%s" % (self.prop, path, tail))
        for o in undecided:
            print("UNDECIDED obligation %s: %s" % (o.id, (o.detail or {}).get("reason")))
        if missing:
            print("UNDECIDED: obligations of the committed baseline were not generated: %s"
                  % ", ".join(missing[:10]))
        for e in self.errors:
            print("CHECKER-ERROR: %s" % e)
        wall = time.time() - self.t0
        n_dis = len([o for o in proof if o.status == "discharged"])
        n_known = len([o for o in proof if o.status == "known"])
        cov = {
            # proof obligations outside the regions of recorded known findings
            "obligations": len(proof) - n_known,
            "discharged": n_dis,
            "known_finding_obligations": n_known,
            "checker_cmd": checker_cmd or ("./check %s --tier %s" % (self.prop, self.tier)),
            "trusted_base": self.trusted or ["z3 4.x/5.x SMT solver", "cvc5"],
            "samples": self.samples[:6] or [{"note": "no sample recorded"}],
            "functions_under_contract": self.functions,
            "obligation_ids": {o.id: {"status": o.status, "kind": o.kind,
                                      "engine": o.engine,
                                      "backends": sorted(o.backends),
                                      "instances": o.instances,
                                      "seconds": round(o.seconds, 4),
                                      "function": o.function,
                                      **({"bound": o.bound} if o.bound else {})}
                               for o in obs},
            "bounded_obligations": len(bounded),
            "bounded_passed": len([o for o in bounded if o.status == "discharged"]),
            "cover_checks": len(covers),
            "known_findings_reported": [o.known for o in known],
            "undecided": [o.id for o in undecided],
            "violated": [o.id for o in violated],
            "solver_seconds": round(self.solver_seconds, 3),
            "explanation": "; ".join(self.notes),
            "exit_code": code,
        }
        if extra_cov:
            cov.update(extra_cov)
        cov.update(self.extra)
        ev = {
            "property_id": self.prop,
            "tier": self.tier,
            "seed": SEED,
            "level": level,
            "coverage": cov,
            "assumptions": self.assumptions,
            "wall_s": round(wall, 3),
            "violations": len(violated),
        }
        os.makedirs(os.path.join(VERIF, "evidence"), exist_ok=True)
        with open(os.path.join(VERIF, "evidence", "%s.json" % self.prop), "w") as fd:
            json.dump(ev, fd, indent=1, default=str, sort_keys=True)
        print("%s %s: %d proof obligations (%d discharged), %d bounded, %d known, "
              "%d violated, %d undecided, %.1fs (solver %.1fs) -> exit %d"
              % (self.prop, self.tier, len(proof), n_dis, len(bounded), len(known),
                 len(violated), len(undecided), wall, self.solver_seconds, code))
        return code


def _short(e, n=300):
    s = str(e)
    s = " ".join(s.split())
    return s if len(s) <= n else s[:n] + "..."


# --------------------------------------------------------------------------
# known findings / baseline files (committed, never written at run time)
# --------------------------------------------------------------------------

def load_known_findings():
    """known_findings.txt lines:
       known: property=<id> obligation=<oid> <what fails>
       fixed: property=<id> <commit> <what failed>
    """
    path = os.path.join(VERIF, "known_findings.txt")
    out = {}
    if not os.path.exists(path):
        return out
    for line in open(path):
        line = line.strip()
        if not line or line.startswith("#"):
            continue
        kind, _, rest = line.partition(":")
        kind = kind.strip()
        fields = rest.strip().split()
        prop = None
        oid = None
        words = []
        for f in fields:
            if f.startswith("property="):
                prop = f.split("=", 1)[1]
            elif f.startswith("obligation="):
                oid = f.split("=", 1)[1]
            else:
                words.append(f)
        if prop is None:
            continue
        out.setdefault(prop, []).append({"status": kind, "obligation": oid,
                                         "text": " ".join(words)})
    return out


def load_baseline():
    path = os.path.join(VERIF, "obligations.baseline.json")
    if not os.path.exists(path):
        return {}
    try:
        return json.load(open(path))
    except Exception:
        return {}


def _pool_worker(args):
    fn, job, prop, tier = args
    sub = Registry(prop, tier)
    try:
        fn(sub, job)
    except OutsideSubset as exc:
        sub.undecided("%s.engine.subset.%s" % (prop, _short(job, 60)),
                      "code left the modelled subset: %s" % exc)
    except Exception as exc:
        sub.errors.append("worker crashed on %r: %s" % (job, traceback.format_exc()[-1500:]))
    return sub.export()


def run_parallel(reg, fn, jobs, nproc=None):
    """Run fn(subregistry, job) for every job in forked workers and merge."""
    import multiprocessing as mp
    nproc = nproc or max(1, min(len(jobs), (os.cpu_count() or 2) - 1))
    if nproc == 1 or len(jobs) <= 1 or os.environ.get("VERIF_SERIAL"):
        for j in jobs:
            reg.absorb(_pool_worker((fn, j, reg.prop, reg.tier)))
        return
    ctx = mp.get_context("fork")
    with ctx.Pool(nproc) as pool:
        for exp in pool.imap_unordered(_pool_worker,
                                       [(fn, j, reg.prop, reg.tier) for j in jobs], chunksize=1):
            reg.absorb(exp)


def adopt(reg, fn, src_prop, only=None, args=()):
    """Run a contract of another property (fn(subregistry, *args)) and adopt its
    obligations under this property's id (optionally only ids containing `only`)."""
    sub = Registry(src_prop, reg.tier)
    fn(sub, *args)
    ids = []
    for oid, o in sub.obligations.items():
        if only is None or only in oid:
            o.id = oid.replace(src_prop + ".", reg.prop + ".", 1)
            if o.status == "violated" and o.replay:
                pass
            reg.obligations[o.id] = o
            ids.append(o.id)
    reg.functions.update(sub.functions)
    reg.solver_seconds += sub.solver_seconds
    reg.errors.extend(sub.errors)
    return ids
