/-
Generic lemmas over finite sums used by the sasmodels contracts (C03, C04, C14, C19).
They are stated for arbitrary n and arbitrary real sequences; the contract checks
prove, on the real code, the elementwise hypotheses of the instance they use.
Checked by `lean lemmas/Sas.lean` (Lean 4 + Mathlib).
-/
import Mathlib

open Finset BigOperators

namespace Sas

/-- C14: weighted Cauchy–Schwarz, (Σ w f)^2 ≤ (Σ w) (Σ w f^2) for w ≥ 0. -/
theorem weighted_cauchy_schwarz (n : ℕ) (w f : ℕ → ℝ) (hw : ∀ j ∈ range n, 0 ≤ w j) :
    (∑ j ∈ range n, w j * f j) ^ 2 ≤ (∑ j ∈ range n, w j) * (∑ j ∈ range n, w j * f j ^ 2) := by
  have h := Finset.sum_mul_sq_le_sq_mul_sq (range n) (fun j => Real.sqrt (w j))
    (fun j => Real.sqrt (w j) * f j)
  have e1 : ∀ j ∈ range n, Real.sqrt (w j) * (Real.sqrt (w j) * f j) = w j * f j := by
    intro j hj
    rw [← mul_assoc, Real.mul_self_sqrt (hw j hj)]
  have e2 : ∀ j ∈ range n, Real.sqrt (w j) ^ 2 = w j := by
    intro j hj
    exact Real.sq_sqrt (hw j hj)
  have e3 : ∀ j ∈ range n, (Real.sqrt (w j) * f j) ^ 2 = w j * f j ^ 2 := by
    intro j hj
    rw [mul_pow, Real.sq_sqrt (hw j hj)]
  rw [Finset.sum_congr rfl e1, Finset.sum_congr rfl e2, Finset.sum_congr rfl e3] at h
  exact h

/-- C03: a column divided by its (non-zero) sum sums to one. -/
theorem normalised_sums_to_one (n : ℕ) (m : ℕ → ℝ) (S : ℝ)
    (hS : S = ∑ j ∈ range n, m j) (hne : S ≠ 0) :
    ∑ j ∈ range n, m j / S = 1 := by
  rw [← Finset.sum_div, ← hS]
  exact div_self hne

/-- C03: non-negative entries with one positive entry have a positive sum. -/
theorem sum_pos_of_nonneg_of_one_pos (n : ℕ) (m : ℕ → ℝ) (j0 : ℕ) (hj0 : j0 ∈ range n)
    (hnn : ∀ j ∈ range n, 0 ≤ m j) (hpos : 0 < m j0) : 0 < ∑ j ∈ range n, m j := by
  exact lt_of_lt_of_le hpos (Finset.single_le_sum hnn hj0)

/-- C03: normalised non-negative entries are non-negative. -/
theorem normalised_nonneg (m S : ℝ) (hm : 0 ≤ m) (hS : 0 < S) : 0 ≤ m / S :=
  div_nonneg hm hS.le

/-- C03: weights that sum to one return a flat intensity unchanged. -/
theorem flat_preserved (n : ℕ) (W : ℕ → ℝ) (c : ℝ) (h1 : ∑ j ∈ range n, W j = 1) :
    ∑ j ∈ range n, c * W j = c := by
  rw [← Finset.mul_sum, h1, mul_one]

/-- C03/C19: applying a weight vector is linear in the theory. -/
theorem apply_linear (n : ℕ) (W f g : ℕ → ℝ) (a b : ℝ) :
    ∑ j ∈ range n, (a * f j + b * g j) * W j
      = a * ∑ j ∈ range n, f j * W j + b * ∑ j ∈ range n, g j * W j := by
  rw [Finset.mul_sum, Finset.mul_sum, ← Finset.sum_add_distrib]
  apply Finset.sum_congr rfl
  intro j _
  ring

/-- C03: scale and background pass through a normalised smearing. -/
theorem scale_background (n : ℕ) (W f : ℕ → ℝ) (s b : ℝ) (h1 : ∑ j ∈ range n, W j = 1) :
    ∑ j ∈ range n, (s * f j + b) * W j = s * ∑ j ∈ range n, f j * W j + b := by
  have h := apply_linear n W f (fun _ => 1) s b
  simp only [mul_one, one_mul] at h
  rw [h, h1, mul_one]

/-- C03 (slit): bin masses that are differences of a potential telescope. -/
theorem telescoping (n : ℕ) (g : ℕ → ℝ) :
    ∑ j ∈ range n, (g (j + 1) - g j) = g n - g 0 :=
  Finset.sum_range_sub g n

/-- C03 (slit): the average of K rows that each sum to one sums to one. -/
theorem average_of_normalised_rows (n K : ℕ) (hK : 0 < K) (W : ℕ → ℕ → ℝ)
    (h : ∀ k ∈ range K, ∑ j ∈ range n, W k j = 1) :
    ∑ j ∈ range n, (∑ k ∈ range K, W k j) / K = 1 := by
  rw [← Finset.sum_div, Finset.sum_comm, Finset.sum_congr rfl h]
  have hK' : (K : ℝ) ≠ 0 := Nat.cast_ne_zero.mpr hK.ne'
  simp [hK']

/-- C03 (2-D, SESANS): a weighted mean Σ w t / Σ w has normalised non-negative weights. -/
theorem weighted_mean_weights (n : ℕ) (w : ℕ → ℝ) (hne : ∑ j ∈ range n, w j ≠ 0) :
    ∑ j ∈ range n, w j / (∑ i ∈ range n, w i) = 1 :=
  normalised_sums_to_one n w _ rfl hne

end Sas
