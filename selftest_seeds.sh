#!/bin/sh
# usage: selftest_seeds.sh [seed-dir-name ...]   (default: all under seeded/)
# Applies each seeded defect to /repo, runs the property's quick check, reverts.
# Expected: exit 1 with a VIOLATION line.  Prints one result line per seed.
cd /verif || exit 2
seeds="$*"; [ -z "$seeds" ] && seeds="$(ls seeded)"
for s in $seeds; do
  id="${s%%_*}"
  if ! git -C /repo diff --quiet; then echo "$s: /repo has local changes, skipping"; continue; fi
  if ! git -C /repo apply --check "/verif/seeded/$s/patch.diff" 2>/dev/null; then echo "$s: patch does not apply"; continue; fi
  git -C /repo apply "/verif/seeded/$s/patch.diff"
  out="$(./check "$id" --tier quick 2>&1)"; code=$?
  git -C /repo checkout -- .
  line="$(echo "$out" | grep -m1 '^VIOLATION')"
  echo "$s: exit=$code ${line:-no VIOLATION line} | $(echo "$out" | grep -m3 'FAILED\|UNDECIDED' | tr '\n' ';' | cut -c1-300)"
done
git -C /repo status --short | head -3
