#!/bin/sh
# usage: selftest_seeds.sh [seed-dir-name ...]   (default: all under seeded/)
# Applies each seeded defect to /repo, runs the property's quick check, reverts.
# Expected: exit 1 with a VIOLATION line.  Prints one result line per seed.
# VERIF_REPO=<worktree> runs the round against a scratch worktree instead of /repo.
here="$(cd "$(dirname "$0")" && pwd)"
cd "$here" || exit 2
REPO="${VERIF_REPO:-/repo}"
seeds="$*"; [ -z "$seeds" ] && seeds="$(ls seeded)"
for s in $seeds; do
  id="${s%%_*}"
  if ! git -C "$REPO" diff --quiet; then echo "$s: $REPO has local changes, skipping"; continue; fi
  if ! git -C "$REPO" apply --check "$here/seeded/$s/patch.diff" 2>/dev/null; then echo "$s: patch does not apply"; continue; fi
  git -C "$REPO" apply "$here/seeded/$s/patch.diff"
  out="$(./check "$id" --tier quick 2>&1)"; code=$?
  git -C "$REPO" checkout -- .
  line="$(echo "$out" | grep -m1 '^VIOLATION')"
  echo "$s: exit=$code ${line:-no VIOLATION line} | $(echo "$out" | grep -m3 'FAILED\|UNDECIDED' | tr '\n' ';' | cut -c1-300)"
done
git -C "$REPO" status --short | head -3
